// Package verifrt is the harness API of the /verif machinery.
//
// Under the symbolic executor every function here is intercepted by name (the bodies
// below are never executed). Natively — when a counterexample is replayed with
// `go test -overlay` — the functions read the recorded nondeterministic inputs from the
// file named by VERIF_REPLAY and turn Assert into a test failure.
package verifrt

import (
	"encoding/json"
	"fmt"
	"os"
	"reflect"
	"strings"
	"testing"
	"unsafe"
)

type input struct {
	Name string `json:"name"`
	Kind string `json:"kind"`
	Val  uint64 `json:"val"`
}

type replayFile struct {
	Inputs []input `json:"inputs"`
}

var (
	stream   []input
	pos      int
	loaded   bool
	failures []string
)

type assertFailed struct{ msg string }
type assumeFailed struct{}

func load() {
	if loaded {
		return
	}
	loaded = true
	path := os.Getenv("VERIF_REPLAY")
	if path == "" {
		return
	}
	b, err := os.ReadFile(path)
	if err != nil {
		panic("verifrt: cannot read VERIF_REPLAY: " + err.Error())
	}
	var rf struct {
		Failure replayFile `json:"failure"`
	}
	if err := json.Unmarshal(b, &rf); err != nil {
		panic("verifrt: bad replay file: " + err.Error())
	}
	stream = rf.Failure.Inputs
}

func next(name string) uint64 {
	load()
	if pos >= len(stream) {
		pos++
		return 0
	}
	v := stream[pos]
	pos++
	return v.Val
}

func NondetInt(name string) int       { return int(next(name)) }
func NondetInt64(name string) int64   { return int64(next(name)) }
func NondetInt32(name string) int32   { return int32(next(name)) }
func NondetUint64(name string) uint64 { return next(name) }
func NondetUint32(name string) uint32 { return uint32(next(name)) }
func NondetUint16(name string) uint16 { return uint16(next(name)) }
func NondetByte(name string) byte     { return byte(next(name)) }
func NondetBool(name string) bool     { return next(name)&1 != 0 }

func NondetBytes(name string, n int) []byte {
	out := make([]byte, n)
	for i := range out {
		out[i] = byte(next(name))
	}
	return out
}

func NondetString(name string, n int) string { return string(NondetBytes(name, n)) }

// NondetChoice returns a value in [0,n): a shape decision.
func NondetChoice(name string, n int) int {
	v := int(next(name))
	if v < 0 || v >= n {
		panic(assumeFailed{})
	}
	return v
}

func Assume(c bool) {
	if !c {
		panic(assumeFailed{})
	}
}

func Assert(c bool, msg string) {
	if !c {
		panic(assertFailed{msg})
	}
}

func Fail(msg string) { panic(assertFailed{msg}) }

// Observe records values for the engine-vs-native differential check.
func Observe(vs ...any) {
	fmt.Println("VERIF-OBSERVE: " + strings.ReplaceAll(fmt.Sprint(vs...), "\n", "\\n"))
}

// Symbolic reports whether the harness runs under the symbolic executor.
func Symbolic() bool { return false }

// Concrete forks (symbolically) over all feasible values of x; natively the identity.
func Concrete(x int) int { return x }

func MapOrderNondet(on bool) {}

// MapRangeCount: number of ranges over maps with at least two entries started so far
// (symbolic executor only; natively 0).
func MapRangeCount() int { return 0 }

// ReverseMapRange(k): under the symbolic executor the k-th following range over a map with
// at least two entries iterates in reverse insertion order. Natively map order is random.
func ReverseMapRange(k int) {}

// Guard declares that the state cell *ptr may only be accessed while lock is held
// (mode 0: reads need RLock or Lock, writes need Lock; mode 1: everything needs Lock).
func Guard(ptr any, lock any, mode int, name string) {}

// Held: 0 = not held, 1 = read-locked, 2 = write-locked (symbolic executor only).
func Held(lock any) int { return 0 }

func SetFaultBudget(n int) { faultBudget = n }

var faultBudget int

func MayFail(site string) bool {
	if faultBudget <= 0 {
		return false
	}
	if next("fault:"+site)&1 != 0 {
		faultBudget--
		return true
	}
	return false
}

type crashed struct{}

var crashArmed bool

func MayCrash(site string) {
	if !crashArmed || faultBudget <= 0 {
		return
	}
	if next("crash:"+site)&1 != 0 {
		faultBudget--
		panic(crashed{})
	}
}

// Schedule: in the engine, goroutines started from here on are explored by the bounded
// scheduler with the given preemption budget. Natively the Go scheduler runs them.
func Schedule(preemptions int) {}

// ForceAssign stores src into the interface variable *dst even if src's type does not
// implement dst's interface type (engine only: used to hand model objects to code that
// takes interfaces with unexported methods). Natively it panics: harnesses use it only
// under Symbolic().
func ForceAssign(dst any, src any) { panic("verifrt.ForceAssign has no native counterpart") }

// CrashNow unwinds to the enclosing RunUntilCrash (no-op outside one).
func CrashNow() {
	if crashArmed {
		panic(crashed{})
	}
}

// RunUntilCrash runs f; a MayCrash inside it that fires unwinds to here.
// NOTE: natively deferred calls of the unwound frames do run (panic semantics); the
// symbolic executor skips them. Harnesses must not depend on the difference.
func RunUntilCrash(f func()) (didCrash bool) {
	saved := crashArmed
	crashArmed = true
	defer func() {
		crashArmed = saved
		if r := recover(); r != nil {
			if _, ok := r.(crashed); ok {
				didCrash = true
				return
			}
			panic(r)
		}
	}()
	f()
	return false
}

func DeepEqual(a, b any) bool { return reflect.DeepEqual(a, b) }

var natives = map[string]func(args ...string) string{}

func RegisterNative(name string, f func(args ...string) string) { natives[name] = f }

func Native(name string, args ...string) string {
	f := natives[name]
	if f == nil {
		panic("verifrt: native " + name + " not registered")
	}
	return f(args...)
}

var lifted = map[string]func() any{}

func RegisterLift(name string, f func() any) { lifted[name] = f }

func Lift(name string) any {
	f := lifted[name]
	if f == nil {
		panic("verifrt: lift " + name + " not registered")
	}
	return f()
}

// ReplayAll runs the harness once per replay file named in VERIF_REPLAY_LIST (comma
// separated; VERIF_REPLAY is accepted for a single file) and prints one VERIF-RESULT line
// per file.
func ReplayAll(t *testing.T, f func()) {
	list := os.Getenv("VERIF_REPLAY_LIST")
	if list == "" {
		list = os.Getenv("VERIF_REPLAY")
	}
	for _, file := range strings.Split(list, ",") {
		if file == "" {
			continue
		}
		os.Setenv("VERIF_REPLAY", file)
		loaded, stream, pos, faultBudget, crashArmed = false, nil, 0, 0, false
		replayOne(t, f)
	}
}

func replayOne(t *testing.T, f func()) {
	defer func() {
		r := recover()
		switch x := r.(type) {
		case nil:
			fmt.Println("VERIF-RESULT: ok")
		case assertFailed:
			fmt.Printf("VERIF-RESULT: assert-fail %s\n", x.msg)
			t.Fail()
		case assumeFailed:
			fmt.Println("VERIF-RESULT: assume-failed")
		default:
			fmt.Printf("VERIF-RESULT: panic %v\n", r)
			t.Fail()
		}
	}()
	f()
}

// Fork-free boolean/arith helpers: under the symbolic executor these build terms instead
// of branching, so reference predicates in harnesses add no paths.
func And(a, b bool) bool     { return a && b }
func Or(a, b bool) bool      { return a || b }
func Not(a bool) bool        { return !a }
func Implies(a, b bool) bool { return !a || b }
func Ite(c bool, a, b int) int {
	if c {
		return a
	}
	return b
}
func IteU64(c bool, a, b uint64) uint64 {
	if c {
		return a
	}
	return b
}
func IteBool(c bool, a, b bool) bool {
	if c {
		return a
	}
	return b
}
func B2I(c bool) int {
	if c {
		return 1
	}
	return 0
}

// ReplaceStrings replaces, in every string reachable from root (through pointers, structs,
// slices, maps and interfaces), each marker by its replacement. It is the native
// counterpart of the engine's lifting substitution.
func ReplaceStrings(root any, subst map[string]string) {
	if len(subst) == 0 {
		return
	}
	seen := map[uintptr]bool{}
	var walk func(v reflect.Value)
	repl := func(s string) string {
		for k, r := range subst {
			if k != "" {
				s = strings.ReplaceAll(s, k, r)
			}
		}
		return s
	}
	walk = func(v reflect.Value) {
		switch v.Kind() {
		case reflect.Pointer:
			if v.IsNil() || seen[v.Pointer()] {
				return
			}
			seen[v.Pointer()] = true
			walk(v.Elem())
		case reflect.Interface:
			if v.IsNil() {
				return
			}
			e := v.Elem()
			if e.Kind() == reflect.String {
				if v.CanSet() {
					nv := reflect.New(e.Type()).Elem()
					nv.SetString(repl(e.String()))
					v.Set(nv)
				}
				return
			}
			if e.Kind() == reflect.Pointer || e.Kind() == reflect.Map || e.Kind() == reflect.Slice {
				walk(e)
			} else if e.Kind() == reflect.Struct && v.CanSet() {
				cp := reflect.New(e.Type()).Elem()
				cp.Set(e)
				walk(cp)
				v.Set(cp)
			}
		case reflect.Struct:
			for i := 0; i < v.NumField(); i++ {
				f := v.Field(i)
				if f.CanAddr() {
					// reach unexported (embedded) fields as well
					f = reflect.NewAt(f.Type(), unsafe.Pointer(f.UnsafeAddr())).Elem()
				}
				walk(f)
			}
		case reflect.Slice, reflect.Array:
			for i := 0; i < v.Len(); i++ {
				walk(v.Index(i))
			}
		case reflect.Map:
			if v.IsNil() {
				return
			}
			for _, k := range v.MapKeys() {
				e := v.MapIndex(k)
				nk := k
				if k.Kind() == reflect.String {
					nk = reflect.New(k.Type()).Elem()
					nk.SetString(repl(k.String()))
				}
				cp := reflect.New(e.Type()).Elem()
				cp.Set(e)
				walk(cp)
				if nk.Interface() != k.Interface() {
					v.SetMapIndex(k, reflect.Value{})
				}
				v.SetMapIndex(nk, cp)
			}
		case reflect.String:
			if v.CanSet() {
				v.SetString(repl(v.String()))
			}
		}
	}
	walk(reflect.ValueOf(root))
}

// ---- heap meta-functions (native counterparts of the engine's type-directed walks) ------

type heapSets struct {
	ptrs  map[uintptr]bool
	backs map[uintptr]bool
	maps  map[uintptr]bool
}

func exempted(t reflect.Type, exempt []string) bool {
	key := t.PkgPath() + "." + t.Name()
	for _, e := range exempt {
		if e == key {
			return true
		}
	}
	return false
}

func heapWalk(v reflect.Value, exempt []string, seen map[uintptr]bool, onPtr func(reflect.Value), onSlice func(reflect.Value), onMap func(reflect.Value)) {
	switch v.Kind() {
	case reflect.Pointer:
		if v.IsNil() || seen[v.Pointer()] || exempted(v.Type().Elem(), exempt) {
			return
		}
		seen[v.Pointer()] = true
		if onPtr != nil {
			onPtr(v)
		}
		heapWalk(v.Elem(), exempt, seen, onPtr, onSlice, onMap)
	case reflect.Struct:
		for i := 0; i < v.NumField(); i++ {
			f := v.Field(i)
			if f.CanAddr() {
				f = reflect.NewAt(f.Type(), unsafe.Pointer(f.UnsafeAddr())).Elem()
			}
			heapWalk(f, exempt, seen, onPtr, onSlice, onMap)
		}
	case reflect.Array:
		for i := 0; i < v.Len(); i++ {
			heapWalk(v.Index(i), exempt, seen, onPtr, onSlice, onMap)
		}
	case reflect.Slice:
		if v.IsNil() {
			return
		}
		if onSlice != nil {
			onSlice(v)
		}
		for i := 0; i < v.Len(); i++ {
			heapWalk(v.Index(i), exempt, seen, onPtr, onSlice, onMap)
		}
	case reflect.Map:
		if v.IsNil() {
			return
		}
		if onMap != nil {
			onMap(v)
		}
		it := v.MapRange()
		for it.Next() {
			heapWalk(it.Key(), exempt, seen, onPtr, onSlice, onMap)
			heapWalk(it.Value(), exempt, seen, onPtr, onSlice, onMap)
		}
	case reflect.Interface:
		if !v.IsNil() {
			heapWalk(v.Elem(), exempt, seen, onPtr, onSlice, onMap)
		}
	}
}

func collectHeap(root any, exempt []string) heapSets {
	hs := heapSets{map[uintptr]bool{}, map[uintptr]bool{}, map[uintptr]bool{}}
	heapWalk(reflect.ValueOf(root), exempt, hs.ptrs, nil, func(s reflect.Value) {
		if s.Cap() > 0 {
			hs.backs[s.Slice3(0, s.Cap(), s.Cap()).Index(s.Cap()-1).Addr().Pointer()] = true
		}
	}, func(m reflect.Value) { hs.maps[m.Pointer()] = true })
	return hs
}

// Disjoint: no pointer cell, slice backing array or map object is reachable from both a
// and b; pointers to the exempt named types ("pkgpath.Name") are not followed.
func Disjoint(a, b any, exemptTypes ...string) bool {
	x, y := collectHeap(a, exemptTypes), collectHeap(b, exemptTypes)
	for p := range x.ptrs {
		if y.ptrs[p] {
			return false
		}
	}
	for p := range x.backs {
		if y.backs[p] {
			return false
		}
	}
	for p := range x.maps {
		if y.maps[p] {
			return false
		}
	}
	return true
}

// EmptySlices cuts every slice reachable from root to length zero in place, keeping its
// capacity.
func EmptySlices(root any, exemptTypes ...string) {
	var cuts []reflect.Value
	heapWalk(reflect.ValueOf(root), exemptTypes, map[uintptr]bool{}, nil, func(s reflect.Value) {
		if s.CanSet() && s.Len() > 0 {
			cuts = append(cuts, s)
		}
	}, nil)
	for _, s := range cuts {
		s.Set(s.Slice(0, 0))
	}
}

// EmptyNthSlice cuts only the n-th non-empty slice in walk order to length zero, keeping
// its capacity; false when there are fewer.
func EmptyNthSlice(root any, n int, exemptTypes ...string) bool {
	idx := 0
	var cut *reflect.Value
	heapWalk(reflect.ValueOf(root), exemptTypes, map[uintptr]bool{}, nil, func(s reflect.Value) {
		if s.CanSet() && s.Len() > 0 {
			if idx == n {
				c := s
				cut = &c
			}
			idx++
		}
	}, nil)
	if cut == nil {
		return false
	}
	cut.Set(cut.Slice(0, 0))
	return true
}

// NilNthElement replaces the n-th list element (walk order) that is a non-nil pointer to a
// named struct of package pkgPath - directly or inside an interface - by a typed nil
// pointer of the same type; false when there are fewer.
func NilNthElement(root any, n int, pkgPath string) bool {
	idx := 0
	var cut *reflect.Value
	var repl reflect.Value
	ofPkg := func(t reflect.Type) bool {
		return t.Kind() == reflect.Pointer && t.Elem().Kind() == reflect.Struct && t.Elem().Name() != "" && t.Elem().PkgPath() == pkgPath
	}
	heapWalk(reflect.ValueOf(root), nil, map[uintptr]bool{}, nil, func(s reflect.Value) {
		for i := 0; i < s.Len(); i++ {
			e := s.Index(i)
			if !e.CanSet() {
				continue
			}
			var r reflect.Value
			switch e.Kind() {
			case reflect.Pointer:
				if e.IsNil() || !ofPkg(e.Type()) {
					continue
				}
				r = reflect.Zero(e.Type())
			case reflect.Interface:
				if e.IsNil() || !ofPkg(e.Elem().Type()) || e.Elem().IsNil() {
					continue
				}
				r = reflect.Zero(e.Elem().Type())
			default:
				continue
			}
			if idx == n {
				c := e
				cut, repl = &c, r
			}
			idx++
		}
	}, nil)
	if cut == nil {
		return false
	}
	cut.Set(repl)
	return true
}

// ReachablePointers: every pointer to a named struct type of package pkgPath reachable
// from root, each once.
func ReachablePointers(root any, pkgPath string) []any {
	var out []any
	heapWalk(reflect.ValueOf(root), nil, map[uintptr]bool{}, func(p reflect.Value) {
		t := p.Type().Elem()
		if t.PkgPath() == pkgPath && t.Kind() == reflect.Struct && t.Name() != "" && p.CanInterface() {
			out = append(out, p.Interface())
		}
	}, nil, nil)
	return out
}

// CountMaps: the non-nil maps of the named map type ("pkg/path.Name") reachable from root.
func CountMaps(root any, typeName string) int {
	n := 0
	heapWalk(reflect.ValueOf(root), nil, map[uintptr]bool{}, nil, nil, func(m reflect.Value) {
		if m.Type().PkgPath()+"."+m.Type().Name() == typeName {
			n++
		}
	})
	return n
}

func IsPointer(x any) bool {
	return x != nil && reflect.TypeOf(x).Kind() == reflect.Pointer
}

//go:build verif

package neo4j

import (
	"bytes"

	"github.com/specterops/dawgs/cypher/frontend"
	"github.com/specterops/dawgs/cypher/models/cypher"
	cypherfmt "github.com/specterops/dawgs/cypher/models/cypher/format"
	"github.com/specterops/dawgs/internal/verifrt"
)

func verifNativeParse(text string, subst map[string]string) (*cypher.RegularQuery, error) {
	q, err := frontend.ParseCypher(frontend.NewContext(), text)
	if err != nil {
		return nil, err
	}
	verifrt.ReplaceStrings(q, subst)
	return q, nil
}

var verifOperands = []string{"n.created", "n.lastseen", "datetime()", "date()", "5", "datetime() - duration('P1D')", "localdatetime()"}
var verifOperators = []string{"<=", "<", ">=", ">", "=", "<>"}

// verifWhereOperands: the operands of the (chained) comparison in the WHERE clause of a
// single-part query, each as emitted text.
func verifWhereOperands(q *cypher.RegularQuery) ([]string, bool) {
	if q == nil || q.SingleQuery == nil || q.SingleQuery.SinglePartQuery == nil || len(q.SingleQuery.SinglePartQuery.ReadingClauses) != 1 {
		return nil, false
	}
	match := q.SingleQuery.SinglePartQuery.ReadingClauses[0].Match
	if match == nil || match.Where == nil || len(match.Where.Expressions) != 1 {
		return nil, false
	}
	comparison, ok := match.Where.Expressions[0].(*cypher.Comparison)
	if !ok {
		return nil, false
	}
	emitter := cypherfmt.NewCypherEmitter(false)
	var out []string
	for i := 0; i <= len(comparison.Partials); i++ {
		var buffer bytes.Buffer
		operand := comparison.Left
		if i > 0 {
			operand = comparison.Partials[i-1].Right
		}
		if emitter.WriteExpression(&buffer, operand) != nil {
			return nil, false
		}
		out = append(out, buffer.String())
	}
	return out, true
}

// VerifC10TemporalRewrite: what Neo4j receives is the text emitted after the driver's own
// rewrite of temporal comparisons (a property compared with datetime() etc. is wrapped in the
// same function). For chained comparisons of 2 or 3 operands over properties, temporal
// function calls (with and without duration arithmetic) and literals, with any operators:
// the text that is sent parses back to the same chain - same operators, and operand by
// operand either the original operand or that operand, a property lookup, wrapped in a
// temporal function; nothing is dropped, duplicated or moved.
func VerifC10TemporalRewrite(operands int) {
	text := "match (n) where "
	var chosen []int
	for i := 0; i < operands; i++ {
		if i > 0 {
			text += " " + verifOperators[verifrt.NondetChoice("operator", len(verifOperators))] + " "
		}
		k := verifrt.NondetChoice("operand", len(verifOperands))
		chosen = append(chosen, k)
		text += verifOperands[k]
	}
	text += " return n"
	original, err := verifNativeParse(text, nil)
	verifrt.Assert(err == nil, "the comparison template parses")
	want, ok := verifWhereOperands(original)
	verifrt.Assert(ok && len(want) == operands, "the template has one chained comparison")
	rewriter := &temporalPropertyComparisonRewriter{}
	rewriter.rewriteRegularQuery(original)
	sent, err := cypherfmt.RegularQuery(original, false)
	verifrt.Assert(err == nil, "the rewritten model is emitted")
	verifrt.Observe(text, sent)
	back, err := verifNativeParse(sent, nil)
	verifrt.Assert(err == nil, "the text that is sent parses")
	got, ok := verifWhereOperands(back)
	verifrt.Assert(ok && len(got) == len(want), "the text that is sent has the same chain of operands")
	if !ok || len(got) != len(want) {
		return
	}
	for i := range want {
		same := got[i] == want[i]
		wrapped := false
		if chosen[i] <= 1 {
			for _, function := range []string{"datetime", "date", "localdatetime", "localtime", "time"} {
				wrapped = wrapped || got[i] == function+"("+want[i]+")"
			}
		}
		verifrt.Assert(same || wrapped, "every operand that is sent is the original operand, or that property wrapped in a temporal function")
	}
	if !rewriter.rewritten {
		for i := range want {
			verifrt.Assert(got[i] == want[i], "a query the rewriter reports untouched is untouched")
		}
	}
}

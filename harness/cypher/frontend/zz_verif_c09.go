//go:build verif

package frontend

import (
	"errors"

	"github.com/antlr4-go/antlr/v4"
	"github.com/specterops/dawgs/cypher/parser"
	"github.com/specterops/dawgs/internal/verifrt"
)

// a visitor that does nothing on the stack, as parseCypher primes one before walking
type verifIdleVisitor struct{ BaseVisitor }

func verifRuleContext(rule int, parent antlr.ParserRuleContext) antlr.ParserRuleContext {
	switch rule {
	case 0:
		return parser.NewOC_UpdatingClauseContext(nil, parent, 0)
	case 1:
		return parser.NewOC_ExplicitProcedureInvocationContext(nil, parent, 0)
	case 2:
		return parser.NewOC_ImplicitProcedureInvocationContext(nil, parent, 0)
	default:
		return parser.NewOC_ParameterContext(nil, parent, 0)
	}
}

func verifParent() antlr.ParserRuleContext {
	switch verifrt.NondetChoice("parent rule", 4) {
	case 0:
		return nil
	case 1:
		return parser.NewOC_SinglePartQueryContext(nil, nil, 0)
	case 2:
		return parser.NewOC_MultiPartQueryContext(nil, parser.NewOC_SingleQueryContext(nil, nil, 0), 0)
	default:
		return parser.NewOC_ReadingClauseContext(nil, parser.NewOC_SinglePartQueryContext(nil, nil, 0), 0)
	}
}

// VerifC09Filters (H1): under the default context, entering any of the rules the
// statement names (updating clause, both procedure invocation forms, parameter) - wherever
// it occurs, whatever was recorded before, and whether or not other default contexts were
// created meanwhile - records a non-nil error, so the parse is rejected
// (parseCypher returns errors.Join(ctx.Errors...)).
func VerifC09Filters() {
	var other *Context
	if verifrt.NondetChoice("another default context created before", 2) == 1 {
		other = DefaultCypherContext()
	}
	ctx := DefaultCypherContext()
	if verifrt.NondetChoice("another default context created afterwards", 2) == 1 {
		other = DefaultCypherContext()
	}
	for i := verifrt.NondetChoice("errors already recorded", 3); i > 0; i-- {
		ctx.AddErrors(errors.New("earlier error"))
	}
	ctx.Enter(&verifIdleVisitor{})
	// walking other rules first must not disarm the filters
	if verifrt.NondetChoice("an unrelated rule is entered first", 2) == 1 {
		ctx.EnterEveryRule(parser.NewOC_MatchContext(nil, nil, 0))
	}
	rc := verifRuleContext(verifrt.NondetChoice("filtered rule", 4), verifParent())
	before := len(ctx.Errors)
	ctx.EnterEveryRule(rc)
	verifrt.Assert(len(ctx.Errors) > before, "entering a forbidden rule records an error in the context that is parsing")
	for _, e := range ctx.Errors {
		verifrt.Assert(e != nil, "recorded errors are non-nil")
	}
	verifrt.Assert(errors.Join(ctx.Errors...) != nil, "the parse result carries the error")
	verifrt.Assert(ctx.GetErrors() != nil, "GetErrors reports the rejection")
	if other != nil {
		verifrt.Assert(len(other.Errors) == 0, "the error is not recorded in an unrelated context")
	}
}

// spy filter counting the callbacks it receives
type verifSpyFilter struct {
	BaseVisitor
	updating, parameter int
}

func (s *verifSpyFilter) EnterOC_UpdatingClause(*parser.OC_UpdatingClauseContext) { s.updating++ }
func (s *verifSpyFilter) EnterOC_Parameter(*parser.OC_ParameterContext)           { s.parameter++ }

// VerifC09Dispatch: EnterEveryRule hands every rule to every installed filter (0..3
// filters) before the visitor, exactly once.
func VerifC09Dispatch() {
	n := verifrt.NondetChoice("installed filters", 4)
	var spies []*verifSpyFilter
	var filters []Visitor
	for i := 0; i < n; i++ {
		s := &verifSpyFilter{}
		spies = append(spies, s)
		filters = append(filters, s)
	}
	ctx := NewContext(filters...)
	ctx.Enter(&verifIdleVisitor{})
	ctx.EnterEveryRule(parser.NewOC_UpdatingClauseContext(nil, verifParent(), 0))
	ctx.EnterEveryRule(parser.NewOC_ParameterContext(nil, nil, 0))
	for _, s := range spies {
		verifrt.Assert(s.updating == 1 && s.parameter == 1, "every filter sees every rule exactly once")
		verifrt.Assert(s.ctx == ctx, "filters report to the context they are installed in")
	}
}

func VerifC09Witness() {
	ctx := DefaultCypherContext()
	ctx.Enter(&verifIdleVisitor{})
	ctx.EnterEveryRule(parser.NewOC_MatchContext(nil, nil, 0))
	if len(ctx.Errors) == 0 {
		verifrt.Assert(false, "witness: a read-only rule is admitted")
	}
}

//go:build verif

package ops

import "github.com/specterops/dawgs/internal/verifrt"

// VerifC17LimitSkip: for every Skip and Limit (full int range) the first n calls of
// ShouldCollect collect exactly the indices [skip, skip+limit) (limit <= 0: unbounded),
// and AtLimit is true exactly when a positive limit has been reached.
//
// Oracle (DESIGN G.6), overflow-free: eff = max(skip,0); call i collects iff
// i >= eff && (limit <= 0 || i-eff < limit).
func VerifC17LimitSkip(n int) {
	skip, limit := verifrt.NondetInt("skip"), verifrt.NondetInt("limit")
	t := LimitSkipTracker{Skip: skip, Limit: limit}
	eff := verifrt.Ite(skip > 0, skip, 0)
	collected := 0
	for i := 0; i < n; i++ {
		got := t.ShouldCollect()
		ge := i >= eff
		// i-eff only meaningful under ge; when !ge the conjunct is masked
		want := verifrt.And(ge, verifrt.Or(limit <= 0, i-eff < limit))
		verifrt.Assert(got == want, "ShouldCollect collects exactly the indices [skip, skip+limit)")
		collected += verifrt.B2I(got)
		verifrt.Assert(t.AtLimit() == verifrt.And(limit > 0, collected >= limit), "AtLimit is true exactly when a positive limit has been reached")
	}
}

// witness twin: the final Assert(false) must be reported.
func VerifC17LimitSkipWitness() {
	skip, limit := verifrt.NondetInt("skip"), verifrt.NondetInt("limit")
	t := LimitSkipTracker{Skip: skip, Limit: limit}
	t.ShouldCollect()
	verifrt.Assert(false, "witness: end of harness reached")
}

//go:build verif

package ops

import (
	"errors"

	"github.com/specterops/dawgs/cypher/models/cypher"
	"github.com/specterops/dawgs/graph"
	"github.com/specterops/dawgs/internal/verifrt"
	"github.com/specterops/dawgs/query"
	"github.com/specterops/dawgs/util/size"
)

// ---- stub transaction over a small concrete multigraph ---------------------------------

type verifEdge struct {
	id         graph.ID
	start, end int
}

type verifTx struct {
	nodes    []*graph.Node
	edges    []verifEdge
	memLimit size.Size
}

func (t *verifTx) WithGraph(graph.Graph) graph.Transaction { return t }
func (t *verifTx) CreateNode(*graph.Properties, ...graph.Kind) (*graph.Node, error) {
	return nil, errors.New("read only")
}
func (t *verifTx) UpdateNode(*graph.Node) error { return errors.New("read only") }
func (t *verifTx) Nodes() graph.NodeQuery       { return nil }
func (t *verifTx) CreateRelationshipByIDs(graph.ID, graph.ID, graph.Kind, *graph.Properties) (*graph.Relationship, error) {
	return nil, errors.New("read only")
}
func (t *verifTx) UpdateRelationship(*graph.Relationship) error { return errors.New("read only") }
func (t *verifTx) Relationships() graph.RelationshipQuery       { return &verifRelQuery{tx: t} }
func (t *verifTx) Raw(string, map[string]any) graph.Result      { return nil }
func (t *verifTx) Query(string, map[string]any) graph.Result    { return nil }
func (t *verifTx) Commit() error                                { return nil }
func (t *verifTx) GraphQueryMemoryLimit() size.Size             { return t.memLimit }

type verifRelQuery struct {
	tx       *verifTx
	criteria graph.CriteriaProvider
}

func (q *verifRelQuery) Filter(c graph.Criteria) graph.RelationshipQuery {
	q.criteria = func() graph.Criteria { return c }
	return q
}
func (q *verifRelQuery) Filterf(p graph.CriteriaProvider) graph.RelationshipQuery {
	q.criteria = p
	return q
}
func (q *verifRelQuery) Update(*graph.Properties) error                    { return errors.New("read only") }
func (q *verifRelQuery) Delete() error                                     { return errors.New("read only") }
func (q *verifRelQuery) OrderBy(...graph.Criteria) graph.RelationshipQuery { return q }
func (q *verifRelQuery) Offset(int) graph.RelationshipQuery                { return q }
func (q *verifRelQuery) Limit(int) graph.RelationshipQuery                 { return q }
func (q *verifRelQuery) Count() (int64, error)                             { return 0, nil }
func (q *verifRelQuery) First() (*graph.Relationship, error)               { return nil, graph.ErrNoResultsFound }
func (q *verifRelQuery) Query(func(graph.Result) error, ...graph.Criteria) error {
	return errors.New("unsupported")
}
func (q *verifRelQuery) Fetch(func(graph.Cursor[*graph.Relationship]) error) error {
	return errors.New("unsupported")
}
func (q *verifRelQuery) FetchIDs(func(graph.Cursor[graph.ID]) error) error {
	return errors.New("unsupported")
}
func (q *verifRelQuery) FetchTriples(func(graph.Cursor[graph.RelationshipTripleResult]) error) error {
	return errors.New("unsupported")
}
func (q *verifRelQuery) FetchAllShortestPaths(func(graph.Cursor[graph.Path]) error) error {
	return errors.New("unsupported")
}
func (q *verifRelQuery) FetchKinds(func(graph.Cursor[graph.RelationshipKindsResult]) error) error {
	return errors.New("unsupported")
}

type verifCursor[T any] struct{ ch chan T }

func (c verifCursor[T]) Error() error { return nil }
func (c verifCursor[T]) Close()       {}
func (c verifCursor[T]) Chan() chan T { return c.ch }

// anchor extracts "start/end node id IN [id]" from the criteria built by nextTraversal.
func (q *verifRelQuery) anchor() (graph.ID, bool, bool) {
	conj, ok := q.criteria().(*cypher.Conjunction)
	if !ok {
		return 0, false, false
	}
	for _, e := range conj.Expressions {
		cmp, ok := e.(*cypher.Comparison)
		if !ok || len(cmp.Partials) != 1 {
			continue
		}
		fn, ok := cmp.Left.(*cypher.FunctionInvocation)
		if !ok {
			continue
		}
		param, ok := cmp.Partials[0].Right.(*cypher.Parameter)
		if !ok {
			continue
		}
		ids, ok := param.Value.([]graph.ID)
		if !ok || len(ids) != 1 {
			continue
		}
		if len(fn.Arguments) != 1 {
			continue
		}
		v, ok := fn.Arguments[0].(*cypher.Variable)
		if !ok {
			continue
		}
		return ids[0], v.Symbol == query.EdgeStartSymbol, true
	}
	return 0, false, false
}

// FetchDirection: relationships anchored at the node, in ascending relationship id order
// (the order the plan requests when skip/limit are set; harmless otherwise), paired with
// the node on the requested side.
func (q *verifRelQuery) FetchDirection(direction graph.Direction, delegate func(graph.Cursor[graph.DirectionalResult]) error) error {
	id, byStart, ok := q.anchor()
	if !ok {
		return errors.New("stub: unrecognised criteria")
	}
	ch := make(chan graph.DirectionalResult, len(q.tx.edges))
	for _, e := range q.tx.edges {
		anchorIdx := e.end
		if byStart {
			anchorIdx = e.start
		}
		if q.tx.nodes[anchorIdx].ID != id {
			continue
		}
		rel := &graph.Relationship{ID: e.id, StartID: q.tx.nodes[e.start].ID, EndID: q.tx.nodes[e.end].ID, Kind: graph.StringKind("E"), Properties: graph.NewProperties()}
		other := q.tx.nodes[e.end]
		if direction == graph.DirectionOutbound {
			other = q.tx.nodes[e.start]
		}
		ch <- graph.NewDirectionalResult(direction, rel, other)
	}
	close(ch)
	return delegate(verifCursor[graph.DirectionalResult]{ch})
}

// ---- naive definitions ------------------------------------------------------------------

// verifMaxSimplePaths: all maximal simple paths (as edge index sequences) from root: a path
// is extended by every incident edge whose far node is not yet on the path; it is reported
// when it has at least one edge and no extension.
func verifMaxSimplePaths(edges []verifEdge, root int, outbound bool) [][]int {
	var out [][]int
	var rec func(node int, onPath []bool, path []int)
	rec = func(node int, onPath []bool, path []int) {
		extended := false
		for i, e := range edges {
			from, to := e.start, e.end
			if !outbound {
				from, to = e.end, e.start
			}
			if from != node || onPath[to] {
				continue
			}
			extended = true
			onPath[to] = true
			rec(to, onPath, append(append([]int{}, path...), i))
			onPath[to] = false
		}
		if !extended && len(path) > 0 {
			out = append(out, path)
		}
	}
	onPath := make([]bool, 8)
	onPath[root] = true
	rec(root, onPath, nil)
	return out
}

func verifReachable(edges []verifEdge, n, root int, outbound bool) []bool {
	r := make([]bool, n)
	r[root] = true
	for round := 0; round < n; round++ {
		for _, e := range edges {
			from, to := e.start, e.end
			if !outbound {
				from, to = e.end, e.start
			}
			if r[from] {
				r[to] = true
			}
		}
	}
	return r
}

func verifSeqGraph(n, ne int) *verifTx {
	tx := &verifTx{}
	for i := 0; i < n; i++ {
		tx.nodes = append(tx.nodes, graph.NewNode(graph.ID(10+i), graph.NewProperties(), graph.StringKind("N")))
	}
	prev := 0
	for e := 0; e < ne; e++ {
		code := verifrt.NondetChoice("edge", n*n)
		verifrt.Assume(code >= prev)
		prev = code
		tx.edges = append(tx.edges, verifEdge{id: graph.ID(100 + e), start: code / n, end: code % n})
	}
	return tx
}

// VerifC17Paths: TraversePaths returns exactly the maximal simple paths from the root (no
// skip/limit), and with a symbolic skip/limit a sub-multiset of them of the right size.
func VerifC17Paths(n, ne int) {
	tx := verifSeqGraph(n, ne)
	outbound := verifrt.NondetChoice("direction", 2) == 0
	dir := graph.DirectionOutbound
	if !outbound {
		dir = graph.DirectionInbound
	}
	root := verifrt.NondetChoice("root", n)
	want := verifMaxSimplePaths(tx.edges, root, outbound)
	skip, limit := 0, 0
	if verifrt.NondetChoice("use skip/limit", 2) == 1 {
		skip, limit = verifrt.NondetInt("skip"), verifrt.NondetInt("limit")
	}
	got, err := TraversePaths(tx, TraversalPlan{Root: tx.nodes[root], Direction: dir, Skip: skip, Limit: limit})
	verifrt.Assert(err == nil, "TraversePaths succeeds on a healthy transaction")
	// every returned path is one of the expected paths, used at most once
	used := make([]bool, len(want))
	for _, p := range got {
		verifrt.Assert(len(p.Nodes) == len(p.Edges)+1 && p.Nodes[0].ID == tx.nodes[root].ID, "a returned path starts at the root and is well formed")
		match := -1
		for wi, w := range want {
			if used[wi] || len(w) != len(p.Edges) {
				continue
			}
			same := true
			for k := range w {
				if tx.edges[w[k]].id != p.Edges[k].ID {
					same = false
				}
			}
			if same {
				match = wi
				break
			}
		}
		verifrt.Assert(match >= 0, "every returned path is a maximal simple path from the root, reported once")
		if match >= 0 {
			used[match] = true
		}
	}
	total := len(want)
	effSkip := verifrt.Ite(skip > 0, skip, 0)
	avail := verifrt.Ite(effSkip >= total, 0, total-effSkip) // total >= 0, effSkip >= 0: no overflow
	expect := verifrt.Ite(verifrt.And(limit > 0, limit < avail), limit, avail)
	verifrt.Assert(len(got) == expect, "the number of returned paths is min(limit, total - skip) (all of them without skip/limit)")
}

// VerifC17Nodes: AcyclicTraverseNodes returns the root plus every node reachable from it
// that passes the node filter (no skip/limit).
func VerifC17Nodes(n, ne int) {
	tx := verifSeqGraph(n, ne)
	outbound := verifrt.NondetChoice("direction", 2) == 0
	dir := graph.DirectionOutbound
	if !outbound {
		dir = graph.DirectionInbound
	}
	root := verifrt.NondetChoice("root", n)
	reach := verifReachable(tx.edges, n, root, outbound)
	rejected := verifrt.NondetChoice("filtered node", n+1) // n = no filter
	var filter NodeFilter
	if rejected < n {
		filter = func(node *graph.Node) bool { return node.ID != tx.nodes[rejected].ID }
	}
	got, err := AcyclicTraverseNodes(tx, TraversalPlan{Root: tx.nodes[root], Direction: dir}, filter)
	verifrt.Assert(err == nil, "AcyclicTraverseNodes succeeds on a healthy transaction")
	for i := 0; i < n; i++ {
		_, in := got[tx.nodes[i].ID]
		verifrt.Assert(in == (reach[i] && i != rejected), "AcyclicTraverseNodes returns exactly the reachable nodes that pass the filter")
	}
	verifrt.Assert(len(got) <= n, "no foreign nodes")
}

// VerifC17NodesWindow: AcyclicTraverseNodes with a node filter and skip/limit on a graph
// in which every node reachable from the root is reached over exactly one edge (so that the
// order of arrival cannot matter): the root if it passes the filter, plus a window of the
// reachable nodes that pass the filter - nodes the filter rejects use up neither skip ticks
// nor limit slots.
func VerifC17NodesWindow(n, ne int) {
	tx := verifSeqGraph(n, ne)
	outbound := verifrt.NondetChoice("direction", 2) == 0
	dir := graph.DirectionOutbound
	if !outbound {
		dir = graph.DirectionInbound
	}
	root := verifrt.NondetChoice("root", n)
	reach := verifReachable(tx.edges, n, root, outbound)
	arrivals := make([]int, n)
	for _, e := range tx.edges {
		from, to := e.start, e.end
		if !outbound {
			from, to = e.end, e.start
		}
		if reach[from] || from == root {
			arrivals[to]++
		}
	}
	for i := 0; i < n; i++ {
		if (i == root && arrivals[i] != 0) || (i != root && reach[i] && arrivals[i] != 1) {
			return // not tree shaped from this root
		}
	}
	rejected := verifrt.NondetChoice("filtered node", n+1) // n = no filter
	var filter NodeFilter
	if rejected < n {
		filter = func(node *graph.Node) bool { return node.ID != tx.nodes[rejected].ID }
	}
	skip, limit := verifrt.NondetChoice("skip", 3), verifrt.NondetChoice("limit", 3)
	got, err := AcyclicTraverseNodes(tx, TraversalPlan{Root: tx.nodes[root], Direction: dir, Skip: skip, Limit: limit}, filter)
	verifrt.Assert(err == nil, "AcyclicTraverseNodes succeeds on a healthy transaction")
	passing, returned := 0, 0
	for i := 0; i < n; i++ {
		_, in := got[tx.nodes[i].ID]
		if in {
			verifrt.Assert(reach[i] && i != rejected, "only reachable nodes that pass the filter are returned")
		}
		if i != root && reach[i] && i != rejected {
			passing++
			if in {
				returned++
			}
		}
	}
	window := passing - skip
	if window < 0 {
		window = 0
	}
	if limit > 0 && window > limit {
		window = limit
	}
	verifrt.Assert(returned == window, "skip and limit count the nodes that pass the filter, not the ones it rejects")
	_, rootIn := got[tx.nodes[root].ID]
	verifrt.Assert(rootIn == (root != rejected), "the root is returned exactly if it passes the filter")
}

// VerifC17Memory: Traversal stops with ErrGraphQueryMemoryLimit when the path tree outgrows
// the transaction's limit, and the path tree size it compares is the recomputed size.
func VerifC17Memory(n, ne int) {
	tx := verifSeqGraph(n, ne)
	root := verifrt.NondetChoice("root", n)
	tx.memLimit = size.Size(1) // everything is larger than one byte
	_, err := TraversePaths(tx, TraversalPlan{Root: tx.nodes[root], Direction: graph.DirectionOutbound})
	verifrt.Assert(errors.Is(err, ErrGraphQueryMemoryLimit), "a traversal over the memory limit fails with ErrGraphQueryMemoryLimit")
}

func VerifC17SeqWitness() {
	tx := verifSeqGraph(2, 1)
	got, _ := TraversePaths(tx, TraversalPlan{Root: tx.nodes[0], Direction: graph.DirectionOutbound})
	if len(got) == 1 {
		verifrt.Assert(false, "witness: a one-edge graph yields one path on some shape")
	}
}

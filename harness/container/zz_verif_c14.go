//go:build verif

package container

import (
	"bytes"

	"github.com/specterops/dawgs/cardinality"
	"github.com/specterops/dawgs/graph"
	"github.com/specterops/dawgs/internal/verifrt"
)

type verifEdge struct{ id, start, end uint64 }

func verifIn(x uint64, s []uint64) bool {
	r := false
	for _, v := range s {
		r = verifrt.Or(r, v == x)
	}
	return r
}

// verifID creates a symbolic id: layout 1 = shared symbolic base with symbolic low 16 bits
// (one roaring container), 2 = shared base with symbolic low 32 bits, 3 = unconstrained.
func verifID(layout int, base uint64, name string) uint64 {
	switch layout {
	case 1:
		return base&^0xFFFF | uint64(verifrt.NondetUint16(name))
	case 2:
		return base&^0xFFFFFFFF | uint64(verifrt.NondetUint32(name))
	}
	return verifrt.NondetUint64(name)
}

// verifSpecAdj: m is adjacent to n in direction dir on the edge list, after deleting nodes
// delN and edges delE (DESIGN G.5). Both = union of out and in.
func verifSpecAdj(edges []verifEdge, delN, delE []uint64, n, m uint64, dir graph.Direction) bool {
	r := false
	for _, e := range edges {
		live := verifrt.Not(verifrt.Or(verifIn(e.id, delE), verifrt.Or(verifIn(e.start, delN), verifIn(e.end, delN))))
		out := verifrt.And(live, verifrt.And(e.start == n, e.end == m))
		in := verifrt.And(live, verifrt.And(e.end == n, e.start == m))
		switch dir {
		case graph.DirectionOutbound:
			r = verifrt.Or(r, out)
		case graph.DirectionInbound:
			r = verifrt.Or(r, in)
		default:
			r = verifrt.Or(r, verifrt.Or(out, in))
		}
	}
	return r
}

// verifNodeCount: number of distinct ids among the endpoints and extra nodes, minus deleted.
func verifNodeCount(edges []verifEdge, extra, delN []uint64) int {
	var all []uint64
	for _, e := range edges {
		all = append(all, e.start, e.end)
	}
	all = append(all, extra...)
	n := 0
	for i, v := range all {
		first := true
		for p := 0; p < i; p++ {
			first = verifrt.And(first, all[p] != v)
		}
		n += verifrt.B2I(verifrt.And(first, verifrt.Not(verifIn(v, delN))))
	}
	return n
}

func verifIsNode(edges []verifEdge, extra []uint64, x uint64) bool {
	r := verifIn(x, extra)
	for _, e := range edges {
		r = verifrt.Or(r, verifrt.Or(e.start == x, e.end == x))
	}
	return r
}

func verifEdges(ne, layout int, base uint64) []verifEdge {
	edges := make([]verifEdge, ne)
	for i := range edges {
		edges[i] = verifEdge{verifID(layout, base, "edge id"), verifID(layout, base, "start"), verifID(layout, base, "end")}
	}
	return edges
}

func verifDirection() graph.Direction {
	switch verifrt.NondetChoice("direction", 3) {
	case 0:
		return graph.DirectionOutbound
	case 1:
		return graph.DirectionInbound
	}
	return graph.DirectionBoth
}

func verifAdjacent(g DirectedGraph, n, m uint64, dir graph.Direction) bool {
	found := false
	g.EachAdjacentNode(n, dir, func(a uint64) bool {
		found = verifrt.Or(found, a == m)
		return true
	})
	return found
}

func verifHasNode(g DirectedGraph, x uint64) bool {
	found := false
	g.EachNode(func(a uint64) bool {
		found = verifrt.Or(found, a == x)
		return true
	})
	return found
}

// VerifC14Adj: the same symbolic multigraph built into one container (which: symbolic
// choice) presents the adjacency sets, node set and node count of the edge list.
func VerifC14Adj(ne, layout int) {
	base := verifrt.NondetUint64("base")
	edges := verifEdges(ne, layout, base)
	extra := verifID(layout, base, "isolated node")
	n, m := verifID(layout, base, "probe node"), verifID(layout, base, "probe neighbour")
	dir := verifDirection()

	var g DirectedGraph
	var delE []uint64
	name := ""
	switch verifrt.NondetChoice("container", 3) {
	case 0:
		name = "adjacency map"
		am := NewAdjacencyMapGraph()
		am.AddNode(extra)
		for _, e := range edges {
			am.AddEdge(e.start, e.end)
		}
		g = am
	case 1:
		name = "CSR"
		b := NewCSRDigraphBuilder()
		b.AddNode(extra)
		for _, e := range edges {
			b.AddEdge(e.start, e.end)
		}
		g = b.Build()
	case 2:
		name = "triplestore"
		ts := NewTriplestore()
		ts.(*triplestore).AddNode(extra)
		for _, e := range edges {
			ts.AddTriple(e.id, e.start, e.end)
		}
		// an edge deleted from the base store itself (by id, not by position)
		if verifrt.NondetChoice("delete an edge from the base store", 2) == 1 {
			x := verifID(layout, base, "deleted edge")
			ts.(*triplestore).DeleteEdge(x)
			delE = append(delE, x)
		}
		g = ts
	}
	verifrt.Assert(verifAdjacent(g, n, m, dir) == verifSpecAdj(edges, nil, delE, n, m, dir), name+": adjacency set equals the edge list's (both = union of in and out)")
	// queries do not change the graph: a second query, in any direction, sees the same graph
	dir2 := verifDirection()
	verifrt.Assert(verifAdjacent(g, n, m, dir2) == verifSpecAdj(edges, nil, delE, n, m, dir2), name+": adjacency set equals the edge list's (both = union of in and out)")
	verifrt.Assert(g.NumNodes() == uint64(verifNodeCount(edges, []uint64{extra}, nil)), name+": NumNodes counts the distinct node ids")
	verifrt.Assert(verifHasNode(g, m) == verifIsNode(edges, []uint64{extra}, m), name+": EachNode yields exactly the node set")
}

// VerifC14Proj: deletion projections of the triple store (one and two layers).
func VerifC14Proj(ne, layout int) {
	base := verifrt.NondetUint64("base")
	edges := verifEdges(ne, layout, base)
	n, m := verifID(layout, base, "probe node"), verifID(layout, base, "probe neighbour")
	dir := verifDirection()
	ts := NewTriplestore()
	for _, e := range edges {
		ts.AddTriple(e.id, e.start, e.end)
	}
	var delN, delE []uint64
	dn, de := cardinality.NewBitmap64(), cardinality.NewBitmap64()
	if verifrt.NondetChoice("delete a node", 2) == 1 {
		x := verifID(layout, base, "deleted node")
		delN = append(delN, x)
		dn.Add(x)
	}
	if verifrt.NondetChoice("delete an edge", 2) == 1 {
		x := verifID(layout, base, "deleted edge")
		delE = append(delE, x)
		de.Add(x)
	}
	var p Triplestore = ts.Projection(dn, de)
	if layer := verifrt.NondetChoice("second layer", 3); layer > 0 {
		parent, parentN, parentE := p, append([]uint64{}, delN...), append([]uint64{}, delE...)
		callerNodes, callerEdges := dn.Cardinality(), de.Cardinality()
		if layer == 1 {
			x := verifID(layout, base, "second deleted node")
			delN = append(delN, x)
			p = p.Projection(cardinality.NewBitmap64With(x), cardinality.NewBitmap64())
		} else {
			x := verifID(layout, base, "second deleted edge")
			delE = append(delE, x)
			p = p.Projection(cardinality.NewBitmap64(), cardinality.NewBitmap64With(x))
		}
		// deriving a projection changes neither the parent projection nor the caller's sets
		parentSpec := verifrt.And(verifSpecAdj(edges, parentN, parentE, n, m, dir), verifrt.Not(verifIn(n, parentN)))
		verifrt.Assert(verifAdjacent(parent, n, m, dir) == parentSpec, "projection: adjacency set equals the edge list's minus deleted nodes and edges")
		parentLive := 0
		for _, e := range edges {
			parentLive += verifrt.B2I(verifrt.Not(verifrt.Or(verifIn(e.id, parentE), verifrt.Or(verifIn(e.start, parentN), verifIn(e.end, parentN)))))
		}
		verifrt.Assert(parent.NumEdges() == uint64(parentLive), "projection: NumEdges counts live edges")
		verifrt.Assert(dn.Cardinality() == callerNodes && de.Cardinality() == callerEdges, "projection: the caller's deletion sets are not modified")
	}
	spec := verifrt.And(verifSpecAdj(edges, delN, delE, n, m, dir), verifrt.Not(verifIn(n, delN)))
	verifrt.Assert(verifAdjacent(p, n, m, dir) == spec, "projection: adjacency set equals the edge list's minus deleted nodes and edges")
	verifrt.Assert(p.NumNodes() == uint64(verifNodeCount(edges, nil, delN)), "projection: NumNodes excludes deleted nodes")
	verifrt.Assert(verifHasNode(p, m) == verifrt.And(verifIsNode(edges, nil, m), verifrt.Not(verifIn(m, delN))), "projection: EachNode excludes deleted nodes")
	live := 0
	for _, e := range edges {
		live += verifrt.B2I(verifrt.Not(verifrt.Or(verifIn(e.id, delE), verifrt.Or(verifIn(e.start, delN), verifIn(e.end, delN)))))
	}
	verifrt.Assert(p.NumEdges() == uint64(live), "projection: NumEdges counts live edges")
	// adjacent edges agree with adjacent nodes
	foundEdge := false
	p.EachAdjacentEdge(n, dir, func(e Edge) bool {
		other := verifrt.Or(verifrt.And(e.Start == n, e.End == m), verifrt.And(e.End == n, e.Start == m))
		foundEdge = verifrt.Or(foundEdge, other)
		return true
	})
	verifrt.Assert(verifrt.Implies(spec, foundEdge), "projection: an adjacent node is reached over an adjacent edge")
}

// ---- derived computations ------------------------------------------------------------

// verifReachSpec: nodes reachable from root by a path of length >= 1 and BFS distances, by
// bounded relaxation over the (symbolic) edge list; ids[] is the candidate universe.
func verifDist(edges []verifEdge, root uint64, ids []uint64, dir graph.Direction) []int {
	const inf = 1 << 20
	dist := make([]int, len(ids))
	for i := range dist {
		dist[i] = inf
	}
	step := func(from, to uint64, e verifEdge) bool {
		switch dir {
		case graph.DirectionOutbound:
			return verifrt.And(e.start == from, e.end == to)
		case graph.DirectionInbound:
			return verifrt.And(e.end == from, e.start == to)
		}
		return verifrt.Or(verifrt.And(e.start == from, e.end == to), verifrt.And(e.end == from, e.start == to))
	}
	// first hop from the root
	for i, v := range ids {
		for _, e := range edges {
			dist[i] = verifrt.Ite(verifrt.And(step(root, v, e), 1 < dist[i]), 1, dist[i])
		}
	}
	for round := 0; round < len(ids); round++ {
		for i, v := range ids {
			for j, u := range ids {
				for _, e := range edges {
					better := verifrt.And(verifrt.And(dist[j] < inf, step(u, v, e)), dist[j]+1 < dist[i])
					dist[i] = verifrt.Ite(better, dist[j]+1, dist[i])
				}
			}
		}
	}
	return dist
}

// VerifC14Reach: Reach and BFSTree on each container equal the naive computation.
func VerifC14Reach(ne, layout int) {
	const inf = 1 << 20
	base := verifrt.NondetUint64("base")
	edges := verifEdges(ne, layout, base)
	root := verifID(layout, base, "root")
	dir := verifDirection()
	var g DirectedGraph
	name := ""
	switch verifrt.NondetChoice("container", 3) {
	case 0:
		name = "adjacency map"
		am := NewAdjacencyMapGraph()
		for _, e := range edges {
			am.AddEdge(e.start, e.end)
		}
		g = am
	case 1:
		name = "CSR"
		b := NewCSRDigraphBuilder()
		for _, e := range edges {
			b.AddEdge(e.start, e.end)
		}
		g = b.Build()
	case 2:
		name = "triplestore"
		ts := NewTriplestore()
		for _, e := range edges {
			ts.AddTriple(e.id, e.start, e.end)
		}
		g = ts
	}
	var ids []uint64
	for _, e := range edges {
		ids = append(ids, e.start, e.end)
	}
	dist := verifDist(edges, root, ids, dir)
	reach := Reach(g, root, dir)
	for i, v := range ids {
		verifrt.Assert(reach.Contains(v) == (dist[i] < inf), name+": Reach equals the nodes reachable by a path of length >= 1")
	}
	terms := BFSTree(g, root, dir)
	for i, v := range ids {
		d := inf
		for _, t := range terms {
			d = verifrt.Ite(t.Node == v, t.Distance, d)
		}
		verifrt.Assert(d == dist[i], name+": BFSTree reports the shortest distance of every reachable node")
	}
	for i, t := range terms {
		verifrt.Assert(verifIn(t.Node, ids), name+": BFSTree reports only nodes of the graph")
		for j := 0; j < i; j++ {
			verifrt.Assert(terms[j].Node != t.Node, name+": BFSTree reports every node once")
		}
	}
}

// VerifC14Norm: Normalize is a bijection onto 0..n-1 that preserves adjacency.
func VerifC14Norm(ne, layout int) {
	base := verifrt.NondetUint64("base")
	edges := verifEdges(ne, layout, base)
	dir := verifDirection()
	var g DirectedGraph
	var rev []uint64
	var ng DirectedGraph
	name := ""
	if verifrt.NondetChoice("container", 2) == 0 {
		name = "adjacency map"
		am := NewAdjacencyMapGraph()
		for _, e := range edges {
			am.AddEdge(e.start, e.end)
		}
		g = am
		rev, ng = am.(*adjacencyMapDigraph).Normalize()
	} else {
		name = "CSR"
		b := NewCSRDigraphBuilder()
		for _, e := range edges {
			b.AddEdge(e.start, e.end)
		}
		g = b.Build()
		rev, ng = g.(*csrDigraph).Normalize()
	}
	verifrt.Assert(uint64(len(rev)) == g.NumNodes() && ng.NumNodes() == g.NumNodes(), name+": Normalize keeps the node count")
	for i := range rev {
		verifrt.Assert(verifIsNode(edges, nil, rev[i]), name+": reverse index maps to original node ids")
		for j := 0; j < i; j++ {
			verifrt.Assert(rev[i] != rev[j], name+": reverse index is injective")
		}
		for j := range rev {
			verifrt.Assert(verifAdjacent(ng, uint64(i), uint64(j), dir) == verifSpecAdj(edges, nil, nil, rev[i], rev[j], dir), name+": Normalize preserves adjacency")
		}
	}
}

// VerifC14Seg: serialised path segments round-trip, and a marshalled record can be framed
// by a trailing newline (the record itself contains no 0x0A), as WriteZoneBFSTree and
// BFSTreeFile.ReadEach assume.
func VerifC14Seg(depth int) {
	var seg *Segment
	for i := 0; i < depth; i++ {
		seg = &Segment{Node: verifrt.NondetUint64("node"), Edge: verifrt.NondetUint64("edge"), Previous: seg}
	}
	if seg != nil && seg.Previous == nil {
		seg.Edge = 0
	}
	// the root segment carries no edge
	for c := seg; c != nil; c = c.Previous {
		if c.Previous == nil {
			c.Edge = 0
		}
	}
	var buf bytes.Buffer
	err := MarshalSegment(seg, &buf)
	verifrt.Assert(err == nil, "MarshalSegment succeeds on a buffer")
	raw := buf.Bytes()
	back := UnmarshalSegment(raw)
	a, b := seg, back
	for a != nil {
		verifrt.Assert(b != nil, "round trip keeps the depth")
		if b == nil {
			return
		}
		verifrt.Assert(verifrt.And(a.Node == b.Node, a.Edge == b.Edge), "round trip keeps node and edge ids")
		a, b = a.Previous, b.Previous
	}
	verifrt.Assert(b == nil, "round trip adds no segment")
	hasNL := false
	for _, c := range raw {
		hasNL = verifrt.Or(hasNL, c == '\n')
	}
	verifrt.Assert(!hasNL, "a marshalled segment contains no newline byte (line framing of BFSTreeFile)")
}

func VerifC14Witness() {
	ts := NewTriplestore()
	ts.AddTriple(verifrt.NondetUint64("e"), verifrt.NondetUint64("s"), verifrt.NondetUint64("t"))
	verifAdjacent(ts, verifrt.NondetUint64("n"), 1, graph.DirectionBoth)
	verifrt.Assert(false, "witness: end of harness reached")
}

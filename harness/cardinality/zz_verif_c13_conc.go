//go:build verif

package cardinality

import (
	"sync"

	"github.com/specterops/dawgs/internal/verifrt"
)

type verifSetOp struct {
	kind   int // 0 Add, 1 Remove, 2 CheckedAdd, 3 Contains, 4 Or{7}, 5 Cardinality
	value  uint64
	result uint64
}

func verifSetApply(s Duplex[uint64], op *verifSetOp) {
	switch op.kind {
	case 0:
		s.Add(op.value)
	case 1:
		s.Remove(op.value)
	case 2:
		if s.CheckedAdd(op.value) {
			op.result = 1
		}
	case 3:
		if s.Contains(op.value) {
			op.result = 1
		}
	case 4:
		other := NewBitmap64()
		other.Add(7)
		s.Or(other)
	default:
		op.result = s.Cardinality()
	}
}

func verifSetObserve(s Duplex[uint64]) [4]uint64 {
	var out [4]uint64
	for i, v := range []uint64{1, 1 << 32, 7} {
		if s.Contains(v) {
			out[i] = 1
		}
	}
	out[3] = s.Cardinality()
	return out
}

// VerifC13Concurrent: two goroutines perform one operation each on one thread-safe
// wrapper (64 bit: impl 0, 32 bit values through the 64 bit wrapper are not distinguished),
// under every schedule with at most `preemptions` preemptions. The final set and the answers
// returned equal those of one of the two sequential orders.
func VerifC13Concurrent(preemptions int) {
	values := []uint64{1, 1 << 32}
	a := verifSetOp{kind: verifrt.NondetChoice("operation a", 3), value: values[verifrt.NondetChoice("value a", 2)]}
	b := verifSetOp{kind: verifrt.NondetChoice("operation b", 6), value: values[verifrt.NondetChoice("value b", 2)]}
	prefill := verifrt.NondetChoice("prefilled", 2) == 1
	build := func() Duplex[uint64] {
		inner := NewBitmap64()
		if prefill {
			inner.Add(1)
		}
		return ThreadSafeDuplex(inner)
	}
	ab, ba := build(), build()
	a1, b1, a2, b2 := a, b, a, b
	verifSetApply(ab, &a1)
	verifSetApply(ab, &b1)
	verifSetApply(ba, &b2)
	verifSetApply(ba, &a2)
	wantAB, wantBA := verifSetObserve(ab), verifSetObserve(ba)

	s := build()
	verifrt.Schedule(preemptions)
	var wg sync.WaitGroup
	wg.Add(2)
	go func() {
		defer wg.Done()
		verifSetApply(s, &a)
	}()
	go func() {
		defer wg.Done()
		verifSetApply(s, &b)
	}()
	wg.Wait()
	got := verifSetObserve(s)
	sameAB := got == wantAB && a.result == a1.result && b.result == b1.result
	sameBA := got == wantBA && a.result == a2.result && b.result == b2.result
	verifrt.Assert(sameAB || sameBA, "concurrent operations on a thread-safe set give the answers of one of their sequential orders")
}

// VerifC13Bulk: in-place or/and/and-not/xor between a receiver and an operand of `size`
// members (native or thread-safe wrapped, 64 bit), with concrete values spread over three
// 2^32 buckets and half of the operand also in the receiver: the cardinality and the
// membership of every value of either set equal the set operation. Sizes around internal
// batch and container thresholds (4096, 4097, 8193) are the point of this harness.
func VerifC13Bulk(size int) {
	receiverSize := 10
	mk := func(n, offset int) []uint64 {
		out := make([]uint64, n)
		for i := range out {
			out[i] = uint64(i%3)<<32 | uint64(3*i+offset)
		}
		return out
	}
	a, b := mk(receiverSize, 0), mk(size, 0)
	for i := 1; i < len(b); i += 2 {
		b[i] += 1 // every other operand value is not in the receiver's progression
	}
	A, B := NewBitmap64(), NewBitmap64()
	A.Add(a...)
	B.Add(b...)
	var receiver, operand Duplex[uint64] = A, B
	if verifrt.NondetChoice("receiver wrapped", 2) == 1 {
		receiver = ThreadSafeDuplex(receiver)
	}
	if verifrt.NondetChoice("operand wrapped", 2) == 1 {
		operand = ThreadSafeDuplex(operand)
	}
	op := verifrt.NondetChoice("op", 4)
	inA, inB := map[uint64]bool{}, map[uint64]bool{}
	for _, v := range a {
		inA[v] = true
	}
	for _, v := range b {
		inB[v] = true
	}
	verifApply(op, receiver, operand)
	want := 0
	for _, v := range append(append([]uint64{}, a...), b...) {
		expected := verifSpec(op, inA[v], inB[v])
		verifrt.Assert(receiver.Contains(v) == expected, "membership after in-place or/and/and-not/xor equals the set operation")
	}
	seen := map[uint64]bool{}
	for _, v := range append(append([]uint64{}, a...), b...) {
		if !seen[v] && verifSpec(op, inA[v], inB[v]) {
			want++
		}
		seen[v] = true
	}
	verifrt.Assert(receiver.Cardinality() == uint64(want), "cardinality after the operation equals the size of the result set")
	verifrt.Assert(operand.Cardinality() == uint64(len(inB)), "operand is unchanged by the operation")
}

//go:build verif

package cardinality

import "github.com/specterops/dawgs/internal/verifrt"

// ---- reference predicates on symbolic lists (fork free) ------------------------------

func verifIn[T uint32 | uint64](x T, s []T) bool {
	r := false
	for _, v := range s {
		r = verifrt.Or(r, v == x)
	}
	return r
}

// verifSpec: membership of x in (A op B); op: 0 Or, 1 And, 2 AndNot, 3 Xor.
func verifSpec(op int, inA, inB bool) bool {
	switch op {
	case 0:
		return verifrt.Or(inA, inB)
	case 1:
		return verifrt.And(inA, inB)
	case 2:
		return verifrt.And(inA, verifrt.Not(inB))
	default:
		return inA != inB
	}
}

// verifCard: number of distinct values v of a++b with spec(v in a, v in b).
func verifCard[T uint32 | uint64](op int, a, b []T) int {
	all := append(append([]T{}, a...), b...)
	n := 0
	for i, v := range all {
		first := true
		for p := 0; p < i; p++ {
			first = verifrt.And(first, all[p] != v)
		}
		n += verifrt.B2I(verifrt.And(first, verifSpec(op, verifIn(v, a), verifIn(v, b))))
	}
	return n
}

func verifApply[T uint32 | uint64](op int, a Duplex[T], b Provider[T]) {
	switch op {
	case 0:
		a.Or(b)
	case 1:
		a.And(b)
	case 2:
		a.AndNot(b)
	default:
		a.Xor(b)
	}
}

// verifValue creates a symbolic value in the given container layout:
// 1: base with symbolic low 16 bits (all values in one roaring container),
// 2: base with symbolic low 32 bits (64-bit: same high word, any container),
// 3: unconstrained.
// Building the value from a shared symbolic base (instead of assuming equal high bits)
// makes the shared fields syntactically identical, so roaring's key comparisons fold.
func verifValue[T uint32 | uint64](layout int, base T, name string) T {
	var zero T
	switch layout {
	case 1:
		return base&^T(0xFFFF) | T(verifrt.NondetUint16(name))
	case 2:
		if uint64(^zero) > 0xFFFFFFFF {
			hi := uint64(base) &^ 0xFFFFFFFF
			return T(hi | uint64(verifrt.NondetUint32(name)))
		}
	}
	if uint64(^zero) > 0xFFFFFFFF {
		return T(verifrt.NondetUint64(name))
	}
	return T(verifrt.NondetUint32(name))
}

func verifBase[T uint32 | uint64]() T {
	var zero T
	if uint64(^zero) > 0xFFFFFFFF {
		return T(verifrt.NondetUint64("base"))
	}
	return T(verifrt.NondetUint32("base"))
}

func verifPair[T uint32 | uint64](mk func() Duplex[T], layout, na, nb int) {
	base := verifBase[T]()
	a := make([]T, na)
	b := make([]T, nb)
	for i := range a {
		a[i] = verifValue(layout, base, "a")
	}
	for i := range b {
		b[i] = verifValue(layout, base, "b")
	}
	x := verifValue(layout, base, "probe")

	A, B := mk(), mk()
	A.Add(a...)
	B.Add(b...)
	if verifrt.NondetChoice("receiver wrapped", 2) == 1 {
		A = ThreadSafeDuplex(A)
	}
	if verifrt.NondetChoice("operand wrapped", 2) == 1 {
		B = ThreadSafeDuplex(B)
	}
	if verifrt.NondetChoice("operand emptied", 2) == 1 {
		// an operand that held values and is empty at the time of the call
		B.Clear()
		b = nil
	}
	op := verifrt.NondetChoice("op", 4)
	verifApply(op, A, B)

	inA, inB := verifIn(x, a), verifIn(x, b)
	verifrt.Assert(A.Contains(x) == verifSpec(op, inA, inB), "membership after in-place or/and/and-not/xor equals the set operation")
	verifrt.Assert(B.Contains(x) == inB, "operand is unchanged by the operation")
	card := verifCard(op, a, b)
	verifrt.Assert(A.Cardinality() == uint64(card), "cardinality after the operation equals the size of the result set")
	sl := A.Slice()
	verifrt.Assert(len(sl) == card, "Slice has one element per member")
	for i, v := range sl {
		verifrt.Assert(verifSpec(op, verifIn(v, a), verifIn(v, b)), "every Slice element is a member of the result set")
		if i > 0 {
			verifrt.Assert(sl[i-1] < v, "Slice is strictly increasing")
		}
	}
}

// VerifC13Pair64 / VerifC13Pair32: every ordered pairing {native, thread-safe wrapped}² of
// receiver and operand x {Or, And, AndNot, Xor}, symbolic values in the given layout.
func VerifC13Pair64(layout, na, nb int) {
	verifPair(NewBitmap64, layout, na, nb)
}

func VerifC13Pair32(layout, na, nb int) {
	verifPair(NewBitmap32, layout, na, nb)
}

// ---- single-set operations ------------------------------------------------------------

func verifSingle[T uint32 | uint64](mk func() Duplex[T], layout, n int) {
	base := verifBase[T]()
	vals := make([]T, n)
	for i := range vals {
		vals[i] = verifValue(layout, base, "v")
	}
	x, y := verifValue(layout, base, "probe"), verifValue(layout, base, "arg")
	S := mk()
	if verifrt.NondetChoice("wrapped", 2) == 1 {
		S = ThreadSafeDuplex(S)
	}
	S.Add(vals...)
	inS := verifIn(x, vals)
	card := verifCard(0, vals, nil)
	verifrt.Assert(S.Contains(x) == inS, "Contains after variadic Add")
	verifrt.Assert(S.Cardinality() == uint64(card), "Cardinality counts distinct values")
	switch verifrt.NondetChoice("op", 6) {
	case 0: // Remove
		S.Remove(y)
		verifrt.Assert(S.Contains(x) == verifrt.And(inS, x != y), "Remove deletes exactly the given value")
		verifrt.Assert(S.Cardinality() == uint64(card-verifrt.B2I(verifIn(y, vals))), "Cardinality after Remove")
	case 1: // CheckedAdd
		added := S.CheckedAdd(y)
		verifrt.Assert(added == verifrt.Not(verifIn(y, vals)), "CheckedAdd reports whether the value was new")
		verifrt.Assert(S.Contains(x) == verifrt.Or(inS, x == y), "CheckedAdd inserts exactly the given value")
		verifrt.Assert(S.Cardinality() == uint64(card+verifrt.B2I(verifrt.Not(verifIn(y, vals)))), "Cardinality after CheckedAdd")
	case 2: // Each with early stop after a symbolic number of callbacks
		stop := verifrt.NondetChoice("stop after", n+2)
		seen := 0
		var prev T
		S.Each(func(v T) bool {
			verifrt.Assert(verifIn(v, vals), "Each yields only members")
			if seen > 0 {
				verifrt.Assert(prev < v, "Each yields strictly increasing values")
			}
			prev = v
			seen++
			return seen < stop
		})
		if stop == 0 {
			stop = 1
		}
		verifrt.Assert(seen == verifrt.Ite(card < stop, card, stop), "Each visits every member until the delegate stops it")
	case 3: // Clone independence
		C := S.Clone()
		verifrt.Assert(C.Contains(x) == inS, "Clone has the same members")
		verifrt.Assert(C.Cardinality() == uint64(card), "Clone has the same cardinality")
		C.Add(y)
		verifrt.Assert(S.Contains(y) == verifIn(y, vals), "mutating the clone leaves the original unchanged")
		S.Remove(x)
		verifrt.Assert(C.Contains(x) == verifrt.Or(inS, x == y), "mutating the original leaves the clone unchanged")
		P := CloneProvider[T](S)
		verifrt.Assert(P.Cardinality() == S.Cardinality(), "CloneProvider copies a duplex")
		P.Add(x)
		verifrt.Assert(!S.Contains(x), "CloneProvider result is independent")
	case 4: // Clear
		S.Clear()
		verifrt.Assert(!S.Contains(x), "Clear removes everything")
		verifrt.Assert(S.Cardinality() == 0, "Cardinality after Clear")
		verifrt.Assert(len(S.Slice()) == 0, "Slice after Clear")
	case 5: // Slice
		sl := S.Slice()
		verifrt.Assert(len(sl) == card, "Slice has one element per member")
		found := false
		for i, v := range sl {
			verifrt.Assert(verifIn(v, vals), "Slice yields only members")
			if i > 0 {
				verifrt.Assert(sl[i-1] < v, "Slice is strictly increasing")
			}
			found = verifrt.Or(found, v == x)
		}
		verifrt.Assert(found == inS, "Slice contains every member")
	}
}

func VerifC13Single64(layout, n int) { verifSingle(NewBitmap64, layout, n) }
func VerifC13Single32(layout, n int) { verifSingle(NewBitmap32, layout, n) }

// ---- commutations ---------------------------------------------------------------------

// VerifC13Commut: DuplexCommutation.Contains is the union, CommutativeDuplexes.Contains is
// (some or-set contains) and (every and-set contains).
func VerifC13Commut(layout int) {
	base := verifrt.NondetUint64("base")
	a := []uint64{verifValue(layout, base, "a"), verifValue(layout, base, "a")}
	b := []uint64{verifValue(layout, base, "b")}
	c := []uint64{verifValue(layout, base, "c"), verifValue(layout, base, "c")}
	x := verifValue(layout, base, "probe")
	A, B, C, E := NewBitmap64With(a...), ThreadSafeDuplex(NewBitmap64With(b...)), NewBitmap64With(c...), NewBitmap64()
	u := CommutativeOr(A, E).Or(B)
	verifrt.Assert(u.Contains(x) == verifrt.Or(verifIn(x, a), verifIn(x, b)), "DuplexCommutation.Contains is the union")
	var cd CommutativeDuplexes[uint64]
	cd.Or(u)
	cd.And(CommutativeOr(C))
	verifrt.Assert(cd.Contains(x) == verifrt.And(verifrt.Or(verifIn(x, a), verifIn(x, b)), verifIn(x, c)), "CommutativeDuplexes.Contains = or-sets and and-sets")
}

// ---- lock discipline of the thread-safe wrapper ---------------------------------------

type verifSpy struct {
	lock  *any
	calls *int
}

func (s verifSpy) check() {
	*s.calls++
	verifrt.Assert(verifrt.Held(*s.lock) == 2, "wrapper delegates only while holding its mutex")
}
func (s verifSpy) Add(value ...uint64)            { s.check() }
func (s verifSpy) Or(other Provider[uint64])      { s.check() }
func (s verifSpy) Clear()                         { s.check() }
func (s verifSpy) Cardinality() uint64            { s.check(); return 0 }
func (s verifSpy) Xor(other Provider[uint64])     { s.check() }
func (s verifSpy) And(other Provider[uint64])     { s.check() }
func (s verifSpy) AndNot(other Provider[uint64])  { s.check() }
func (s verifSpy) Remove(value uint64)            { s.check() }
func (s verifSpy) Slice() []uint64                { s.check(); return nil }
func (s verifSpy) Contains(value uint64) bool     { s.check(); return false }
func (s verifSpy) Each(d func(value uint64) bool) { s.check() }
func (s verifSpy) CheckedAdd(value uint64) bool   { s.check(); return false }
func (s verifSpy) Clone() Duplex[uint64]          { s.check(); return s }

// VerifC13Lock: each of the 13 wrapper methods calls the wrapped provider exactly once,
// with the wrapper's mutex held, and releases it afterwards. Interleavings are not explored.
func VerifC13Lock() {
	var lk any
	calls := 0
	spy := verifSpy{lock: &lk, calls: &calls}
	w := ThreadSafeDuplex[uint64](spy)
	ts := w.(threadSafeDuplex[uint64])
	lk = ts.lock
	other := NewBitmap64()
	method := verifrt.NondetChoice("method", 17)
	if method >= 13 {
		// the spy is the wrapped *operand*: the receiver must reach it only through the
		// operand wrapper, i.e. while the operand's own mutex is held
		recv := ThreadSafeDuplex[uint64](NewBitmap64With(1, 2, 70000))
		switch method {
		case 13:
			recv.Or(w)
		case 14:
			recv.And(w)
		case 15:
			recv.AndNot(w)
		case 16:
			recv.Xor(w)
		}
		verifrt.Assert(calls >= 1, "a wrapped operand is consulted through its wrapper")
		verifrt.Assert(verifrt.Held(ts.lock) == 0, "operand wrapper releases its mutex")
		verifrt.Assert(verifrt.Held(recv.(threadSafeDuplex[uint64]).lock) == 0, "receiver wrapper releases its mutex")
		return
	}
	switch method {
	case 0:
		w.Add(1)
	case 1:
		w.Or(other)
	case 2:
		w.Clear()
	case 3:
		w.Cardinality()
	case 4:
		w.Xor(other)
	case 5:
		w.And(other)
	case 6:
		w.AndNot(other)
	case 7:
		w.Remove(1)
	case 8:
		w.Slice()
	case 9:
		w.Contains(1)
	case 10:
		w.Each(func(uint64) bool { return true })
	case 11:
		w.CheckedAdd(1)
	case 12:
		w.Clone()
	}
	verifrt.Assert(calls == 1, "wrapper method delegates exactly once")
	verifrt.Assert(verifrt.Held(ts.lock) == 0, "wrapper releases its mutex on return")
}

func VerifC13Witness() {
	A := NewBitmap64With(verifrt.NondetUint64("a"), verifrt.NondetUint64("a"))
	A.And(ThreadSafeDuplex(NewBitmap64With(verifrt.NondetUint64("b"))))
	verifrt.Assert(false, "witness: end of harness reached")
}

//go:build verif

package algo

import (
	"context"

	"github.com/specterops/dawgs/cardinality"
	"github.com/specterops/dawgs/container"
	"github.com/specterops/dawgs/graph"
	"github.com/specterops/dawgs/internal/verifrt"
)

// redirect target for util.SLogMeasureFunction (logging and wall-clock are outside the claim)
func verifNoMeasure(functionName string, args ...any) func(args ...any) {
	return func(args ...any) {}
}

// verifClosure: reflexive-transitive closure of the concrete edge list over nodes 0..n-1.
func verifClosure(n int, starts, ends []int) [][]bool {
	r := make([][]bool, n)
	for i := range r {
		r[i] = make([]bool, n)
		r[i][i] = true
	}
	for e := range starts {
		r[starts[e]][ends[e]] = true
	}
	for k := 0; k < n; k++ {
		for i := 0; i < n; i++ {
			for j := 0; j < n; j++ {
				if r[i][k] && r[k][j] {
					r[i][j] = true
				}
			}
		}
	}
	return r
}

// verifGraph: a digraph over the node ids ids[0..n-1] with ne edges whose endpoints are
// shape choices; edges are generated in canonical (sorted) order to avoid revisiting
// permutations of the same multigraph.
func verifGraph(n, ne int, ids []uint64, csr bool) (container.DirectedGraph, []int, []int) {
	starts, ends := make([]int, ne), make([]int, ne)
	prev := 0
	for e := 0; e < ne; e++ {
		code := verifrt.NondetChoice("edge", n*n)
		verifrt.Assume(code >= prev)
		prev = code
		starts[e], ends[e] = code/n, code%n
	}
	if csr {
		b := container.NewCSRDigraphBuilder()
		for i := 0; i < n; i++ {
			b.AddNode(ids[i])
		}
		for e := range starts {
			b.AddEdge(ids[starts[e]], ids[ends[e]])
		}
		return b.Build(), starts, ends
	}
	g := container.NewAdjacencyMapGraph()
	for i := 0; i < n; i++ {
		g.AddNode(ids[i])
	}
	for e := range starts {
		g.AddEdge(ids[starts[e]], ids[ends[e]])
	}
	return g, starts, ends
}

func verifIDs(n int, symbolic bool) []uint64 {
	ids := make([]uint64, n)
	for i := range ids {
		if symbolic {
			ids[i] = uint64(verifrt.NondetUint16("node id"))
			for p := 0; p < i; p++ {
				verifrt.Assume(ids[p] != ids[i])
			}
		} else {
			ids[i] = uint64(i)
		}
	}
	return ids
}

// VerifC15SCC: the decomposition puts two nodes in one component exactly when each reaches
// the other; the component digraph has an edge exactly where some member edge crosses, and
// is acyclic (it has no edge between mutually reachable components, which by the first
// clause are one component).
func VerifC15SCC(n, ne int, symbolicIDs int) {
	ids := verifIDs(n, symbolicIDs == 1)
	g, starts, ends := verifGraph(n, ne, ids, verifrt.NondetChoice("origin container", 2) == 1)
	reach := verifClosure(n, starts, ends)
	comps, nodeToComp := StronglyConnectedComponents(context.Background(), g)
	verifrt.Assert(len(nodeToComp) == n, "every node is assigned a component")
	total := uint64(0)
	for _, c := range comps {
		verifrt.Assert(c.Cardinality() > 0, "no component is empty")
		total += c.Cardinality()
	}
	verifrt.Assert(total == uint64(n), "components partition the node set")
	for i := 0; i < n; i++ {
		ci, ok := nodeToComp[ids[i]]
		verifrt.Assert(ok && ci < uint64(len(comps)) && comps[ci].Contains(ids[i]), "a node is a member of its component")
		for j := 0; j < n; j++ {
			cj := nodeToComp[ids[j]]
			verifrt.Assert((ci == cj) == (reach[i][j] && reach[j][i]), "same component exactly when mutually reachable")
		}
	}
	cg := NewComponentGraph(context.Background(), g)
	for i := 0; i < n; i++ {
		for j := 0; j < n; j++ {
			ci, _ := cg.ContainingComponent(ids[i])
			cj, _ := cg.ContainingComponent(ids[j])
			if ci == cj {
				continue
			}
			// expected edge ci -> cj iff some member edge crosses
			want := false
			for e := range starts {
				a, _ := cg.ContainingComponent(ids[starts[e]])
				b, _ := cg.ContainingComponent(ids[ends[e]])
				if a == ci && b == cj {
					want = true
				}
			}
			got := false
			cg.Digraph().EachAdjacentNode(ci, graph.DirectionOutbound, func(x uint64) bool {
				if x == cj {
					got = true
				}
				return true
			})
			verifrt.Assert(got == want, "component digraph has an edge exactly where a member edge crosses")
			verifrt.Assert(!(got && reach[j][i]), "component digraph is acyclic")
			verifrt.Assert(cg.ComponentReachable(ci, cj, graph.DirectionOutbound) == reach[i][j], "ComponentReachable equals reachability")
			verifrt.Assert(cg.ComponentSearch(ci, cj, graph.DirectionOutbound) == reach[i][j], "ComponentSearch equals reachability")
		}
		verifrt.Assert(cg.HasMember(ids[i]), "HasMember knows every node")
	}
}

func verifDir() graph.Direction {
	if verifrt.NondetChoice("direction", 2) == 0 {
		return graph.DirectionOutbound
	}
	return graph.DirectionInbound
}

func verifReaches(reach [][]bool, dir graph.Direction, from, to int) bool {
	if dir == graph.DirectionOutbound {
		return reach[from][to]
	}
	return reach[to][from]
}

// verifCheckReachSet: the duplex equals {ids[j] | reaches(m, j)} minus/plus the given tweaks.
func verifCheckReachSet(got cardinality.Duplex[uint64], ids []uint64, want []bool, what string) {
	count := uint64(0)
	for j := range ids {
		verifrt.Assert(got.Contains(ids[j]) == want[j], what)
		if want[j] {
			count++
		}
	}
	verifrt.Assert(got.Cardinality() == count, what+" (cardinality)")
}

// VerifC15Hist: every reachability answer equals true reachability, whatever queries came
// before and whatever the cache capacity. History: an optional first query (symbolic member
// and direction), then a sweep over all members in ascending or descending order; every
// answer of the sweep is checked, and each runs on the cache state left by its predecessors.
//
// mode 0 (slim): no first query, capacity in {1,64}, reach-set sweep, adjacency-map origin.
// mode 1 (full): first query of any kind, capacity in {0,1,2,64}, either origin container.
func VerifC15Hist(n, ne int, symbolicIDs int, mode int) {
	ids := verifIDs(n, symbolicIDs == 1)
	g, starts, ends := verifGraph(n, ne, ids, mode == 1 && verifrt.NondetChoice("origin container", 2) == 1)
	reach := verifClosure(n, starts, ends)
	capacity := 0
	if mode == 1 {
		capacity = []int{0, 1, 2, 64}[verifrt.NondetChoice("cache capacity", 4)]
	} else {
		capacity = []int{1, 64}[verifrt.NondetChoice("cache capacity", 2)]
	}
	rc := NewReachabilityCache(context.Background(), g, capacity)
	dir := verifDir()

	check := func(m int, d graph.Direction, kind int) {
		want := make([]bool, n)
		for j := range want {
			want[j] = verifReaches(reach, d, m, j)
		}
		switch kind {
		case 0:
			verifCheckReachSet(rc.ReachOfComponentContainingMember(ids[m], d), ids, want, "ReachOfComponentContainingMember equals true reachability")
		case 1:
			parts := rc.ReachSliceOfComponentContainingMember(ids[m], d)
			all := cardinality.NewBitmap64()
			sum := uint64(0)
			for _, p := range parts {
				sum += p.Cardinality()
				all.Or(p)
			}
			verifCheckReachSet(all, ids, want, "ReachSliceOfComponentContainingMember equals true reachability")
			verifrt.Assert(sum == all.Cardinality(), "reach slice parts are disjoint")
		case 2:
			for j := 0; j < n; j++ {
				verifrt.Assert(rc.CanReach(ids[m], ids[j], d) == want[j], "CanReach equals true reachability")
			}
		case 3:
			extra := (m + 1) % n
			acc := cardinality.NewBitmap64With(ids[extra], ids[m])
			rc.OrReach(ids[m], d, acc)
			w := append([]bool{}, want...)
			w[extra] = true
			w[m] = false
			verifCheckReachSet(acc, ids, w, "OrReach = (set or reach) minus the node")
		case 4:
			// the accumulator holds another member and, or not, the node itself
			extra := (m + 1) % n
			withNode := verifrt.NondetChoice("accumulator holds the node", 2) == 1
			acc := cardinality.NewBitmap64With(ids[extra])
			if withNode {
				acc.Add(ids[m])
			}
			rc.XorReach(ids[m], d, acc)
			w := append([]bool{}, want...)
			w[m] = false
			if extra != m {
				w[extra] = !w[extra]
			}
			if withNode {
				w[m] = !w[m]
			}
			verifCheckReachSet(acc, ids, w, "XorReach = set xor (reach minus the node)")
		}
	}
	// optional first query
	kind := 0
	if mode == 1 {
		if first := verifrt.NondetChoice("first query member", n+1); first < n {
			check(first, dir, verifrt.NondetChoice("first query kind", 5))
		}
		kind = verifrt.NondetChoice("sweep kind", 3)
	}
	descending := verifrt.NondetChoice("sweep order", 2) == 1
	for s := 0; s < n; s++ {
		m := s
		if descending {
			m = n - 1 - s
		}
		check(m, dir, kind)
	}
	// unknown member
	unknown := uint64(1 << 40)
	verifrt.Assert(rc.ReachOfComponentContainingMember(unknown, dir).Cardinality() == 0, "unknown member has empty reach")
	verifrt.Assert(!rc.CanReach(unknown, ids[0], dir), "unknown member reaches nothing")
}

// larger fixed graphs (edges as start,end pairs): a double diamond, a chain with a cycle
// and side entries, a layered DAG with shared descendants
var verifC15Shapes = [][][2]int{
	{{1, 0}, {4, 1}, {4, 2}, {5, 1}, {5, 3}, {6, 4}, {6, 5}},
	{{0, 1}, {1, 2}, {2, 1}, {2, 3}, {4, 2}, {5, 4}, {5, 0}},
	{{0, 1}, {0, 2}, {1, 3}, {1, 4}, {2, 4}, {2, 5}, {4, 6}, {5, 6}},
}

// VerifC15Shapes: on a fixed graph of 6-7 nodes, with a cache of capacity 1, 2, 3 or 64:
// two arbitrary queries (any member; reach set, reach slice or can-reach), then a sweep of
// reach-set queries over all members in either order. Every answer equals true
// reachability - whatever the cache evicted or kept in between.
func VerifC15Shapes(shape int) {
	edges := verifC15Shapes[shape]
	n := 0
	var starts, ends []int
	for _, e := range edges {
		starts, ends = append(starts, e[0]), append(ends, e[1])
		if e[0]+1 > n {
			n = e[0] + 1
		}
		if e[1]+1 > n {
			n = e[1] + 1
		}
	}
	ids := verifIDs(n, false)
	g := container.NewAdjacencyMapGraph()
	for i := 0; i < n; i++ {
		g.AddNode(ids[i])
	}
	for i := range starts {
		g.AddEdge(ids[starts[i]], ids[ends[i]])
	}
	reach := verifClosure(n, starts, ends)
	capacity := []int{1, 2, 3, 64}[verifrt.NondetChoice("cache capacity", 4)]
	rc := NewReachabilityCache(context.Background(), g, capacity)
	dir := verifDir()
	check := func(m int, kind int) {
		want := make([]bool, n)
		for j := range want {
			want[j] = verifReaches(reach, dir, m, j)
		}
		switch kind {
		case 0:
			verifCheckReachSet(rc.ReachOfComponentContainingMember(ids[m], dir), ids, want, "ReachOfComponentContainingMember equals true reachability")
		case 1:
			all := cardinality.NewBitmap64()
			for _, p := range rc.ReachSliceOfComponentContainingMember(ids[m], dir) {
				all.Or(p)
			}
			verifCheckReachSet(all, ids, want, "ReachSliceOfComponentContainingMember equals true reachability")
		default:
			for j := 0; j < n; j++ {
				verifrt.Assert(rc.CanReach(ids[m], ids[j], dir) == want[j], "CanReach equals true reachability")
			}
		}
	}
	check(verifrt.NondetChoice("first query member", n), 0)
	check(verifrt.NondetChoice("second query member", n), verifrt.NondetChoice("second query kind", 3))
	descending := verifrt.NondetChoice("sweep order", 2) == 1
	for s := 0; s < n; s++ {
		m := s
		if descending {
			m = n - 1 - s
		}
		check(m, 0)
	}
}

func VerifC15Witness() {
	ids := verifIDs(2, true)
	g, _, _ := verifGraph(2, 1, ids, false)
	rc := NewReachabilityCache(context.Background(), g, 1)
	rc.ReachOfComponentContainingMember(ids[0], graph.DirectionOutbound)
	verifrt.Assert(false, "witness: end of harness reached")
}

// VerifC15CanReach: can-reach answers on every DAG over n labelled nodes (each forward pair
// i<j is an edge or not: 2^(n(n-1)/2) graphs), nodes inserted in ascending or descending
// order (the order decides component ids and with them the order of adjacency lists), fresh
// cache: CanReach (the bidirectional ComponentReachable) for every ordered pair in both
// directions, and the component graph's one-sided ComponentSearch, equal the closure of the
// edge list.
func VerifC15CanReach(n int) {
	var starts, ends []int
	for i := 0; i < n; i++ {
		for j := i + 1; j < n; j++ {
			if verifrt.NondetChoice("edge present", 2) == 1 {
				starts, ends = append(starts, i), append(ends, j)
			}
		}
	}
	ids := verifIDs(n, false)
	descending := verifrt.NondetChoice("insertion order", 2) == 1
	g := container.NewAdjacencyMapGraph()
	for s := 0; s < n; s++ {
		i := s
		if descending {
			i = n - 1 - s
		}
		g.AddNode(ids[i])
	}
	for e := range starts {
		g.AddEdge(ids[starts[e]], ids[ends[e]])
	}
	reach := verifClosure(n, starts, ends)
	rc := NewReachabilityCache(context.Background(), g, 64)
	cg := NewComponentGraph(context.Background(), g)
	for _, dir := range []graph.Direction{graph.DirectionOutbound, graph.DirectionInbound} {
		for i := 0; i < n; i++ {
			ci, okI := cg.ContainingComponent(ids[i])
			verifrt.Assert(okI, "every node has a component")
			for j := 0; j < n; j++ {
				want := verifReaches(reach, dir, i, j)
				verifrt.Assert(rc.CanReach(ids[i], ids[j], dir) == want, "CanReach equals true reachability")
				cj, _ := cg.ContainingComponent(ids[j])
				verifrt.Assert(cg.ComponentSearch(ci, cj, dir) == want, "ComponentSearch equals true reachability")
			}
		}
	}
}

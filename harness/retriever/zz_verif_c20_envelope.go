//go:build verif

package retriever

import (
	"bytes"
	"crypto/hpke"
	"encoding/binary"
	"errors"
	"io"

	"github.com/specterops/dawgs/internal/verifrt"
)

// ---- ideal HPKE (engine only; natively the real crypto/hpke runs) --------------------------
//
// A session is created by NewSender for a public key; its encapsulated key is a fresh
// token. Seal numbers the messages of the session; a ciphertext is a fresh token followed by
// the masked plaintext. Open succeeds only for the exact ciphertext bytes Seal produced, in
// sequence, under the same associated data, in a session opened with the private key that
// belongs to the public key: every other input is rejected (an ideal AEAD with sequence
// numbers; integrity is the property under test, secrecy is not modelled).

type verifArchiveKEM struct{}

func (verifArchiveKEM) ID() uint16 { return 0x0042 }

type verifArchiveKey struct {
	id      int
	private bool
}

func (s *verifArchiveKey) KEM() hpke.KEM {
	var kem hpke.KEM
	verifrt.ForceAssign(&kem, verifArchiveKEM{})
	return kem
}

func verifModelKEM() hpke.KEM { return (&verifArchiveKey{}).KEM() }
func verifNilKDF() hpke.KDF   { return nil }
func verifNilAEAD() hpke.AEAD { return nil }

type verifSealed struct {
	session    int
	sequence   int
	aad        []byte
	plaintext  []byte
	ciphertext []byte
}

type verifHPKESession struct {
	keyID      int
	enc        []byte
	sealed     int
	opened     int
	recipient  bool
	recipientK int
}

var (
	verifSessions   []*verifHPKESession
	verifSenders    = map[*hpke.Sender]*verifHPKESession{}
	verifRecipients = map[*hpke.Recipient]*verifHPKESession{}
	verifRecords    []*verifSealed
)

func verifNewSender(pk hpke.PublicKey, kdf hpke.KDF, aead hpke.AEAD, info []byte) ([]byte, *hpke.Sender, error) {
	key, ok := any(pk).(*verifArchiveKey)
	if !ok {
		return nil, nil, errors.New("model: unknown public key")
	}
	session := &verifHPKESession{keyID: key.id}
	verifSessions = append(verifSessions, session)
	session.enc = []byte{'E', 'N', 'C', byte(len(verifSessions)), 0xA5, 0x5A, 0x11, 0x22}
	sender := new(hpke.Sender)
	verifSenders[sender] = session
	return append([]byte{}, session.enc...), sender, nil
}

func verifSeal(sender *hpke.Sender, aad, plaintext []byte) ([]byte, error) {
	session := verifSenders[sender]
	if session == nil {
		return nil, errors.New("model: unknown sender")
	}
	record := &verifSealed{sequence: session.sealed, aad: append([]byte{}, aad...), plaintext: append([]byte{}, plaintext...)}
	for i, candidate := range verifSessions {
		if candidate == session {
			record.session = i
		}
	}
	session.sealed++
	verifRecords = append(verifRecords, record)
	index := len(verifRecords)
	ciphertext := []byte{'C', 'T', byte(index >> 8), byte(index), 0xEE, 0xEE, 0xEE, 0xEE, 0xEE, 0xEE, 0xEE, 0xEE, 0xEE, 0xEE, 0xEE, 0xEE}
	for _, b := range plaintext {
		ciphertext = append(ciphertext, b^0x5A)
	}
	record.ciphertext = append([]byte{}, ciphertext...)
	return ciphertext, nil
}

func verifNewRecipient(enc []byte, k hpke.PrivateKey, kdf hpke.KDF, aead hpke.AEAD, info []byte) (*hpke.Recipient, error) {
	key, ok := any(k).(*verifArchiveKey)
	if !ok || !key.private {
		return nil, errors.New("model: unknown private key")
	}
	recipient := new(hpke.Recipient)
	// an encapsulated key that no sender produced still yields a context (with a key
	// nobody else has): every Open on it fails
	state := &verifHPKESession{keyID: -1, recipient: true, recipientK: key.id}
	for _, session := range verifSessions {
		if bytes.Equal(session.enc, enc) {
			state = &verifHPKESession{keyID: session.keyID, enc: session.enc, recipient: true, recipientK: key.id}
		}
	}
	verifRecipients[recipient] = state
	return recipient, nil
}

func verifOpen(recipient *hpke.Recipient, aad, ciphertext []byte) ([]byte, error) {
	state := verifRecipients[recipient]
	failure := errors.New("cipher: message authentication failed")
	if state == nil || state.keyID < 0 || state.keyID != state.recipientK {
		return nil, failure
	}
	for _, record := range verifRecords {
		if !bytes.Equal(verifSessions[record.session].enc, state.enc) {
			continue
		}
		if record.sequence == state.opened && bytes.Equal(record.aad, aad) && bytes.Equal(record.ciphertext, ciphertext) {
			state.opened++
			return append([]byte{}, record.plaintext...), nil
		}
	}
	return nil, failure
}

// verifArchiveKeys returns a key pair and the private key of another pair.
func verifArchiveKeys() (hpke.PublicKey, hpke.PrivateKey, hpke.PrivateKey) {
	if verifrt.Symbolic() {
		var public hpke.PublicKey
		var private, other hpke.PrivateKey
		verifrt.ForceAssign(&public, &verifArchiveKey{id: 1})
		verifrt.ForceAssign(&private, &verifArchiveKey{id: 1, private: true})
		verifrt.ForceAssign(&other, &verifArchiveKey{id: 2, private: true})
		return public, private, other
	}
	first, err := hpke.MLKEM1024().GenerateKey()
	if err != nil {
		panic(err)
	}
	second, err := hpke.MLKEM1024().GenerateKey()
	if err != nil {
		panic(err)
	}
	return first.PublicKey(), first, second
}

// VerifC20Envelope: a stream is written through the encrypted archive writer; the archive
// bytes are changed - kind 0: one bit flipped anywhere, 1: truncated anywhere, 2: bytes
// appended, 3: frames dropped, duplicated or swapped, 4: opened with another private key,
// 5: the clear-text header re-spelled (same JSON value, other bytes) - and read back.
// Reading must fail; what is returned before the failure is a prefix of what was written.
func VerifC20Envelope(kind int) {
	if verifrt.Symbolic() {
		verifFS = verifNewFS()
	}
	public, private, other := verifArchiveKeys()
	written := [][]byte{[]byte("first chunk"), []byte("2nd")}
	var archive bytes.Buffer
	writer, err := NewEncryptedArchiveWriter(&archive, public)
	if err != nil {
		verifrt.Fail("cannot create the archive writer")
	}
	var plain []byte
	for _, chunk := range written {
		if _, err := writer.Write(chunk); err != nil {
			verifrt.Fail("cannot write to the archive")
		}
		plain = append(plain, chunk...)
	}
	if writer.Close() != nil {
		verifrt.Fail("cannot close the archive")
	}
	original := archive.Bytes()

	// sanity: the untouched archive reads back
	reader, err := NewEncryptedArchiveReader(bytes.NewReader(original), private)
	if err != nil {
		verifrt.Fail("the untouched archive cannot be opened")
	}
	back, err := io.ReadAll(reader)
	verifrt.Assert(err == nil && bytes.Equal(back, plain), "an untouched archive reads back what was written")

	// frame boundaries
	headerLen := int(binary.BigEndian.Uint32(original[len(encryptedArchiveMagic):]))
	frameStart := len(encryptedArchiveMagic) + 4 + headerLen
	var frames [][]byte
	for pos := frameStart; pos+5 <= len(original); {
		size := int(binary.BigEndian.Uint32(original[pos+1:]))
		frames = append(frames, original[pos:pos+5+size])
		pos += 5 + size
	}

	changed := append([]byte{}, original...)
	key := private
	switch kind {
	case 0:
		pos := verifrt.NondetChoice("byte", len(original))
		changed[pos] ^= 1 << uint(verifrt.NondetChoice("bit", 8))
	case 1:
		changed = changed[:verifrt.NondetChoice("truncate to", len(original))]
	case 2:
		extra := [][]byte{{0}, {1, 0, 0, 0, 0}, frames[len(frames)-1]}
		changed = append(changed, extra[verifrt.NondetChoice("extension", len(extra))]...)
	case 3:
		order := [][]int{{1, 2}, {0, 2}, {0, 0, 1, 2}, {1, 0, 2}, {0, 1}, {0, 1, 2, 2}, {2}}
		pick := order[verifrt.NondetChoice("frame order", len(order))]
		changed = append([]byte{}, original[:frameStart]...)
		for _, index := range pick {
			changed = append(changed, frames[index]...)
		}
	case 4:
		key = other
	default:
		// the same header value spelled with other bytes
		header := original[len(encryptedArchiveMagic)+4 : frameStart]
		var respelled []byte
		switch verifrt.NondetChoice("spelling", 3) {
		case 0:
			respelled = append([]byte{' '}, header...)
		case 1:
			respelled = bytes.Replace(header, []byte(`"format"`), []byte(`"Format"`), 1)
		default:
			respelled = bytes.Replace(header, []byte(`"chunk_size"`), []byte(`"CHUNK_SIZE"`), 1)
		}
		var length [4]byte
		binary.BigEndian.PutUint32(length[:], uint32(len(respelled)))
		changed = append([]byte{}, original[:len(encryptedArchiveMagic)]...)
		changed = append(append(append(changed, length[:]...), respelled...), original[frameStart:]...)
	}
	if bytes.Equal(changed, original) && kind != 4 {
		return
	}
	reader, err = NewEncryptedArchiveReader(bytes.NewReader(changed), key)
	if err != nil {
		return // rejected when opened
	}
	got, err := io.ReadAll(reader)
	verifrt.Assert(err != nil, "reading an archive that differs from what was written fails")
	verifrt.Assert(len(got) <= len(plain) && bytes.Equal(got, plain[:len(got)]), "what is delivered before the failure is a prefix of what was written")
}

//go:build verif

package retriever

// Environment model for the dump / load / resume harnesses (C18, C19, C20). In the engine
// the os calls of this package are redirected to the verifOs* functions below (see the
// "redirects" of the harnesses in index.json), which implement a small in-memory file
// system with process-crash semantics: every completed operation is durable, an operation
// is atomic, a crash or an injected error can occur before any mutating operation.
// Natively the same functions fall through to the real os package.

import (
	"context"
	"errors"
	"hash"
	"io"
	"io/fs"
	"os"
	"path/filepath"
	"sort"
	"strings"
	"time"

	cypherModel "github.com/specterops/dawgs/cypher/models/cypher"
	"github.com/specterops/dawgs/graph"
	"github.com/specterops/dawgs/internal/verifrt"
)

// ---- file system -------------------------------------------------------------------------

type verifFSNode struct {
	isDir   bool
	symlink bool // a dangling symbolic link: listed, never followed
	data    []byte
}

type verifOpenFile struct {
	path   string
	node   *verifFSNode
	off    int
	write  bool
	closed bool
}

type verifFileSystem struct {
	nodes   map[string]*verifFSNode
	open    map[*os.File]*verifOpenFile
	ops     int      // mutating operations started
	crashAt int      // crash before the crashAt-th mutating operation (0 = never)
	failAt  int      // the failAt-th mutating operation fails instead (0 = never)
	coarse  bool     // count directory-level operations only (natively replayable points)
	temps   int      // MkdirTemp / CreateTemp counter
	log     []string // mutating operations, in order
}

var verifFS *verifFileSystem

// verifNativeFaults: natively (replays through rewritten sources) the directory-level
// operations count and fail/crash here; file contents go to the real file system.
var verifNativeFaults struct{ ops, crashAt, failAt int }

func verifNativeStep(op, path string) error {
	verifNativeFaults.ops++
	if verifNativeFaults.crashAt != 0 && verifNativeFaults.ops == verifNativeFaults.crashAt {
		verifrt.CrashNow()
	}
	if verifNativeFaults.failAt != 0 && verifNativeFaults.ops == verifNativeFaults.failAt {
		return &fs.PathError{Op: op, Path: path, Err: verifErrInjected}
	}
	return nil
}

var (
	verifErrNotExist = errors.New("file does not exist")
	verifErrInjected = errors.New("injected file system failure")
	verifErrClosed   = errors.New("file already closed")
)

func verifNewFS() *verifFileSystem {
	s := &verifFileSystem{nodes: map[string]*verifFSNode{}, open: map[*os.File]*verifOpenFile{}}
	s.nodes["/"] = &verifFSNode{isDir: true}
	return s
}

// step announces a mutating operation: the point where the process may crash or the
// operation may fail.
func (s *verifFileSystem) step(op, path string) error {
	if s.coarse && (op == "write" || op == "truncate") {
		// only the operations that can also be intercepted natively are counted
		s.log = append(s.log, op+" "+path)
		return nil
	}
	s.ops++
	if s.crashAt != 0 && s.ops == s.crashAt {
		verifrt.CrashNow()
	}
	if s.failAt != 0 && s.ops == s.failAt {
		s.log = append(s.log, "FAIL "+op+" "+path)
		return &fs.PathError{Op: op, Path: path, Err: verifErrInjected}
	}
	s.log = append(s.log, op+" "+path)
	return nil
}

func verifClean(p string) string {
	p = filepath.Clean(p)
	if !strings.HasPrefix(p, "/") {
		p = "/cwd/" + p
	}
	return p
}

func (s *verifFileSystem) parentIsDir(p string) bool {
	parent := s.nodes[filepath.Dir(p)]
	return parent != nil && parent.isDir
}

func (s *verifFileSystem) children(dir string) []string {
	var out []string
	prefix := dir + "/"
	if dir == "/" {
		prefix = "/"
	}
	for p := range s.nodes {
		if p != dir && strings.HasPrefix(p, prefix) && !strings.Contains(p[len(prefix):], "/") {
			out = append(out, p)
		}
	}
	sort.Strings(out)
	return out
}

type verifFileInfo struct {
	name    string
	size    int64
	isDir   bool
	symlink bool
}

func (s verifFileInfo) Name() string { return s.name }
func (s verifFileInfo) Size() int64  { return s.size }
func (s verifFileInfo) Mode() fs.FileMode {
	if s.isDir {
		return fs.ModeDir | 0o755
	}
	if s.symlink {
		return fs.ModeSymlink | 0o777
	}
	return 0o600
}
func (s verifFileInfo) ModTime() time.Time         { return time.Time{} }
func (s verifFileInfo) IsDir() bool                { return s.isDir }
func (s verifFileInfo) Sys() any                   { return nil }
func (s verifFileInfo) Type() fs.FileMode          { return s.Mode().Type() }
func (s verifFileInfo) Info() (fs.FileInfo, error) { return s, nil }

func verifNotExist(op, path string) error {
	return &fs.PathError{Op: op, Path: path, Err: verifErrNotExist}
}

func verifOsStat(name string) (os.FileInfo, error) {
	if verifFS == nil {
		return os.Stat(name)
	}
	p := verifClean(name)
	node := verifFS.nodes[p]
	if node == nil || node.symlink {
		return nil, verifNotExist("stat", name)
	}
	return verifFileInfo{name: filepath.Base(p), size: int64(len(node.data)), isDir: node.isDir}, nil
}

func verifOsLstat(name string) (os.FileInfo, error) {
	if verifFS == nil {
		return os.Lstat(name)
	}
	if node := verifFS.nodes[verifClean(name)]; node != nil && node.symlink {
		return verifFileInfo{name: filepath.Base(verifClean(name)), symlink: true}, nil
	}
	return verifOsStat(name)
}

// verifOsSymlink plants a dangling symbolic link (harness use only: the retriever never
// creates links).
func verifOsSymlink(target, name string) error {
	if verifFS == nil {
		return os.Symlink(target, name)
	}
	p := verifClean(name)
	if verifFS.nodes[p] != nil || !verifFS.parentIsDir(p) {
		return &fs.PathError{Op: "symlink", Path: name, Err: fs.ErrExist}
	}
	verifFS.nodes[p] = &verifFSNode{symlink: true}
	return nil
}

func verifOsIsNotExist(err error) bool {
	if verifFS == nil {
		return os.IsNotExist(err)
	}
	var pathErr *fs.PathError
	if errors.As(err, &pathErr) {
		return pathErr.Err == verifErrNotExist
	}
	return err == verifErrNotExist
}

func verifOsReadDir(name string) ([]os.DirEntry, error) {
	if verifFS == nil {
		return os.ReadDir(name)
	}
	p := verifClean(name)
	node := verifFS.nodes[p]
	if node == nil {
		return nil, verifNotExist("open", name)
	}
	if !node.isDir {
		return nil, &fs.PathError{Op: "readdir", Path: name, Err: errors.New("not a directory")}
	}
	var out []os.DirEntry
	for _, child := range verifFS.children(p) {
		c := verifFS.nodes[child]
		out = append(out, verifFileInfo{name: filepath.Base(child), size: int64(len(c.data)), isDir: c.isDir, symlink: c.symlink})
	}
	return out, nil
}

func verifOsMkdirAll(path string, perm os.FileMode) error {
	if verifFS == nil {
		if info, err := os.Stat(path); err == nil && info.IsDir() {
			return nil
		}
		if err := verifNativeStep("mkdirall", path); err != nil {
			return err
		}
		return os.MkdirAll(path, perm)
	}
	p := verifClean(path)
	if node := verifFS.nodes[p]; node != nil {
		if node.isDir {
			return nil
		}
		return &fs.PathError{Op: "mkdir", Path: path, Err: errors.New("not a directory")}
	}
	if err := verifFS.step("mkdirall", p); err != nil {
		return err
	}
	for cur := p; cur != "/" && cur != "."; cur = filepath.Dir(cur) {
		if node := verifFS.nodes[cur]; node != nil {
			if !node.isDir {
				return &fs.PathError{Op: "mkdir", Path: cur, Err: errors.New("not a directory")}
			}
			break
		}
		verifFS.nodes[cur] = &verifFSNode{isDir: true}
	}
	return nil
}

func verifOsMkdirTemp(dir, pattern string) (string, error) {
	if verifFS == nil {
		if err := verifNativeStep("mkdirall", dir+"/"+pattern); err != nil {
			return "", err
		}
		return os.MkdirTemp(dir, pattern)
	}
	if dir == "" {
		dir = "/tmp"
	}
	verifFS.temps++
	name := verifClean(filepath.Join(dir, strings.ReplaceAll(pattern, "*", "t"+string(rune('0'+verifFS.temps)))))
	if err := verifOsMkdirAll(name, 0o700); err != nil {
		return "", err
	}
	return name, nil
}

func verifOsRemoveAll(path string) error {
	if verifFS == nil {
		if _, err := os.Lstat(path); err != nil {
			return os.RemoveAll(path)
		}
		if err := verifNativeStep("removeall", path); err != nil {
			return err
		}
		return os.RemoveAll(path)
	}
	p := verifClean(path)
	if verifFS.nodes[p] == nil {
		return nil
	}
	if err := verifFS.step("removeall", p); err != nil {
		return err
	}
	for candidate := range verifFS.nodes {
		if candidate == p || strings.HasPrefix(candidate, p+"/") {
			delete(verifFS.nodes, candidate)
		}
	}
	return nil
}

func verifOsRemove(name string) error {
	if verifFS == nil {
		if _, err := os.Lstat(name); err != nil {
			return os.Remove(name)
		}
		if err := verifNativeStep("remove", name); err != nil {
			return err
		}
		return os.Remove(name)
	}
	p := verifClean(name)
	node := verifFS.nodes[p]
	if node == nil {
		return verifNotExist("remove", name)
	}
	if node.isDir && len(verifFS.children(p)) > 0 {
		return &fs.PathError{Op: "remove", Path: name, Err: errors.New("directory not empty")}
	}
	if err := verifFS.step("remove", p); err != nil {
		return err
	}
	delete(verifFS.nodes, p)
	return nil
}

func verifOsRename(oldpath, newpath string) error {
	if verifFS == nil {
		if _, err := os.Lstat(oldpath); err != nil {
			return os.Rename(oldpath, newpath)
		}
		if err := verifNativeStep("rename", oldpath); err != nil {
			return err
		}
		return os.Rename(oldpath, newpath)
	}
	from, to := verifClean(oldpath), verifClean(newpath)
	node := verifFS.nodes[from]
	if node == nil {
		return &os.LinkError{Op: "rename", Old: oldpath, New: newpath, Err: verifErrNotExist}
	}
	if !verifFS.parentIsDir(to) {
		return &os.LinkError{Op: "rename", Old: oldpath, New: newpath, Err: verifErrNotExist}
	}
	if target := verifFS.nodes[to]; target != nil && target.isDir != node.isDir {
		return &os.LinkError{Op: "rename", Old: oldpath, New: newpath, Err: errors.New("file exists")}
	}
	if err := verifFS.step("rename", from+" -> "+to); err != nil {
		return err
	}
	var moved []string
	for candidate := range verifFS.nodes {
		if candidate == from || strings.HasPrefix(candidate, from+"/") {
			moved = append(moved, candidate)
		}
	}
	for candidate := range verifFS.nodes {
		if strings.HasPrefix(candidate, to+"/") {
			delete(verifFS.nodes, candidate)
		}
	}
	for _, candidate := range moved {
		verifFS.nodes[to+candidate[len(from):]] = verifFS.nodes[candidate]
		delete(verifFS.nodes, candidate)
	}
	return nil
}

func verifOsWriteFile(name string, data []byte, perm os.FileMode) error {
	if verifFS == nil {
		if _, err := os.Lstat(name); err != nil {
			if err := verifNativeStep("create", name); err != nil {
				return err
			}
		}
		return os.WriteFile(name, data, perm)
	}
	// open (create, truncate), write, close: a crash in between leaves an empty file
	file, err := verifOsOpenFile(name, os.O_WRONLY|os.O_CREATE|os.O_TRUNC, perm)
	if err != nil {
		return err
	}
	_, err = verifFileWrite(file, data)
	if closeErr := verifFileClose(file); err == nil {
		err = closeErr
	}
	return err
}

func verifOsReadFile(name string) ([]byte, error) {
	if verifFS == nil {
		return os.ReadFile(name)
	}
	p := verifClean(name)
	node := verifFS.nodes[p]
	if node == nil {
		return nil, verifNotExist("open", name)
	}
	if node.isDir {
		return nil, &fs.PathError{Op: "read", Path: name, Err: errors.New("is a directory")}
	}
	return append([]byte{}, node.data...), nil
}

func verifOsOpen(name string) (*os.File, error) {
	if verifFS == nil {
		return os.Open(name)
	}
	return verifOsOpenFile(name, os.O_RDONLY, 0)
}

func verifOsOpenFile(name string, flag int, perm os.FileMode) (*os.File, error) {
	if verifFS == nil {
		if _, err := os.Lstat(name); err != nil && flag&os.O_CREATE != 0 {
			if err := verifNativeStep("create", name); err != nil {
				return nil, err
			}
		}
		return os.OpenFile(name, flag, perm)
	}
	p := verifClean(name)
	node := verifFS.nodes[p]
	write := flag&(os.O_WRONLY|os.O_RDWR) != 0
	if node == nil {
		if flag&os.O_CREATE == 0 {
			return nil, verifNotExist("open", name)
		}
		if !verifFS.parentIsDir(p) {
			return nil, verifNotExist("open", name)
		}
		if err := verifFS.step("create", p); err != nil {
			return nil, err
		}
		node = &verifFSNode{}
		verifFS.nodes[p] = node
	} else {
		if flag&os.O_CREATE != 0 && flag&os.O_EXCL != 0 {
			return nil, &fs.PathError{Op: "open", Path: name, Err: errors.New("file exists")}
		}
		if node.isDir && write {
			return nil, &fs.PathError{Op: "open", Path: name, Err: errors.New("is a directory")}
		}
		if flag&os.O_TRUNC != 0 && write && len(node.data) > 0 {
			if err := verifFS.step("truncate", p); err != nil {
				return nil, err
			}
			node.data = nil
		}
	}
	handle := new(os.File)
	verifFS.open[handle] = &verifOpenFile{path: p, node: node, write: write}
	return handle, nil
}

func verifOsCreateTemp(dir, pattern string) (*os.File, error) {
	if verifFS == nil {
		if err := verifNativeStep("create", dir+"/"+pattern); err != nil {
			return nil, err
		}
		return os.CreateTemp(dir, pattern)
	}
	if dir == "" {
		dir = "/tmp"
	}
	verifFS.temps++
	name := filepath.Join(dir, strings.ReplaceAll(pattern, "*", "t"+string(rune('0'+verifFS.temps))))
	return verifOsOpenFile(name, os.O_RDWR|os.O_CREATE|os.O_EXCL, 0o600)
}

func verifFileWrite(file *os.File, data []byte) (int, error) {
	if verifFS == nil {
		return file.Write(data)
	}
	handle := verifFS.open[file]
	if handle == nil || handle.closed {
		return 0, verifErrClosed
	}
	if !handle.write {
		return 0, &fs.PathError{Op: "write", Path: handle.path, Err: errors.New("bad file descriptor")}
	}
	if len(data) == 0 {
		return 0, nil
	}
	if err := verifFS.step("write", handle.path); err != nil {
		return 0, err
	}
	handle.node.data = append(append([]byte{}, handle.node.data...), data...)
	return len(data), nil
}

func verifFileRead(file *os.File, buffer []byte) (int, error) {
	if verifFS == nil {
		return file.Read(buffer)
	}
	handle := verifFS.open[file]
	if handle == nil || handle.closed {
		return 0, verifErrClosed
	}
	if len(buffer) == 0 {
		return 0, nil
	}
	if handle.off >= len(handle.node.data) {
		return 0, io.EOF
	}
	n := copy(buffer, handle.node.data[handle.off:])
	handle.off += n
	return n, nil
}

func verifFileClose(file *os.File) error {
	if verifFS == nil {
		return file.Close()
	}
	handle := verifFS.open[file]
	if handle == nil || handle.closed {
		return verifErrClosed
	}
	handle.closed = true
	return nil
}

func verifFileName(file *os.File) string {
	if verifFS == nil {
		return file.Name()
	}
	if handle := verifFS.open[file]; handle != nil {
		return handle.path
	}
	return ""
}

func verifFileStat(file *os.File) (os.FileInfo, error) {
	if verifFS == nil {
		return file.Stat()
	}
	handle := verifFS.open[file]
	if handle == nil {
		return nil, verifErrClosed
	}
	return verifFileInfo{name: filepath.Base(handle.path), size: int64(len(handle.node.data)), isDir: handle.node.isDir}, nil
}

func verifFileSync(file *os.File) error {
	if verifFS == nil {
		return file.Sync()
	}
	return nil
}

func verifOsSameFile(a, b os.FileInfo) bool {
	if verifFS == nil {
		return os.SameFile(a, b)
	}
	left, ok1 := a.(verifFileInfo)
	right, ok2 := b.(verifFileInfo)
	return ok1 && ok2 && left.name == right.name && left.isDir == right.isDir
}

func verifWalkDir(root string, fn fs.WalkDirFunc) error {
	if verifFS == nil {
		return filepath.WalkDir(root, fn)
	}
	p := verifClean(root)
	node := verifFS.nodes[p]
	if node == nil {
		return fn(root, nil, verifNotExist("lstat", root))
	}
	var paths []string
	for candidate := range verifFS.nodes {
		if candidate == p || strings.HasPrefix(candidate, p+"/") {
			paths = append(paths, candidate)
		}
	}
	sort.Strings(paths)
	var skipped []string
walk:
	for _, candidate := range paths {
		for _, prefix := range skipped {
			if strings.HasPrefix(candidate, prefix+"/") {
				continue walk
			}
		}
		c := verifFS.nodes[candidate]
		err := fn(candidate, verifFileInfo{name: filepath.Base(candidate), size: int64(len(c.data)), isDir: c.isDir, symlink: c.symlink}, nil)
		if err == fs.SkipDir {
			if c.isDir {
				skipped = append(skipped, candidate)
				continue
			}
			return nil
		}
		if err == fs.SkipAll {
			return nil
		}
		if err != nil {
			return err
		}
	}
	return nil
}

// verifSnapshot lists every file with its content (directories by name only), sorted.
func verifSnapshot(root string) []string {
	var out []string
	if verifFS == nil {
		filepath.WalkDir(root, func(p string, entry fs.DirEntry, err error) error {
			if err != nil || p == root {
				return nil
			}
			rel, _ := filepath.Rel(root, p)
			if entry.IsDir() {
				out = append(out, rel+"/")
			} else {
				data, _ := os.ReadFile(p)
				out = append(out, rel+"="+string(data))
			}
			return nil
		})
		sort.Strings(out)
		return out
	}
	p := verifClean(root)
	for candidate, node := range verifFS.nodes {
		if strings.HasPrefix(candidate, p+"/") {
			rel := candidate[len(p)+1:]
			if node.isDir {
				out = append(out, rel+"/")
			} else {
				out = append(out, rel+"="+string(node.data))
			}
		}
	}
	sort.Strings(out)
	return out
}

// ---- hashing -----------------------------------------------------------------------------

// The ideal hash: distinct inputs get distinct digests (an injective numbering of the
// inputs seen on this path); equal inputs get equal digests. "digest equal <=> content
// equal" is exactly the cryptographic assumption the code relies on.
var verifDigests = map[string]int{}

func verifSum256(data []byte) [32]byte {
	key := string(data)
	index, found := verifDigests[key]
	if !found {
		index = len(verifDigests) + 1
		verifDigests[key] = index
	}
	var digest [32]byte
	for i := range digest {
		digest[i] = 0xd0 + byte(i&0x0f)
	}
	digest[0], digest[1], digest[2], digest[3] = byte(index>>24), byte(index>>16), byte(index>>8), byte(index)
	return digest
}

type verifHash struct{ absorbed []byte }

func (s *verifHash) Write(p []byte) (int, error) {
	s.absorbed = append(s.absorbed, p...)
	return len(p), nil
}
func (s *verifHash) Sum(b []byte) []byte {
	digest := verifSum256(s.absorbed)
	return append(b, digest[:]...)
}
func (s *verifHash) Reset()         { s.absorbed = nil }
func (s *verifHash) Size() int      { return 32 }
func (s *verifHash) BlockSize() int { return 64 }

func verifNewHash() hash.Hash { return &verifHash{} }

func verifNoTelemetry() runtimeTelemetry { return runtimeTelemetry{} }

// ---- database ----------------------------------------------------------------------------

type verifCursor[T any] struct{ values chan T }

func verifNewCursor[T any](values []T) *verifCursor[T] {
	valueC := make(chan T, len(values))
	for _, value := range values {
		valueC <- value
	}
	close(valueC)
	return &verifCursor[T]{values: valueC}
}

func (s *verifCursor[T]) Error() error { return nil }
func (s *verifCursor[T]) Close()       {}
func (s *verifCursor[T]) Chan() chan T { return s.values }

type verifGraphData struct {
	nodes         []*graph.Node
	relationships []*graph.Relationship
}

// verifDatabase is an in-memory graph database with named graphs: keyset reads in id
// order, correlated bulk node creation, relationship creation by ids; every mutation is
// logged.
type verifDatabase struct {
	graph.Database
	graphs    map[string]*verifGraphData
	nextID    graph.ID
	mutations []string
	fetches   int
	failFetch int // the failFetch-th cursor fetch fails (0 = never)
	schemas   int
}

func verifNewDatabase() *verifDatabase {
	return &verifDatabase{graphs: map[string]*verifGraphData{}, nextID: 100}
}

func (s *verifDatabase) graphData(name string) *verifGraphData {
	data := s.graphs[name]
	if data == nil {
		data = &verifGraphData{}
		s.graphs[name] = data
	}
	return data
}

func (s *verifDatabase) ReadTransaction(ctx context.Context, delegate graph.TransactionDelegate, _ ...graph.TransactionOption) error {
	return delegate(&verifTransaction{database: s})
}

func (s *verifDatabase) BatchOperation(ctx context.Context, delegate graph.BatchDelegate, _ ...graph.BatchOption) error {
	return delegate(&verifBatch{database: s})
}

func (s *verifDatabase) AssertSchema(ctx context.Context, schema graph.Schema) error {
	s.schemas++
	return nil
}

type verifTransaction struct {
	graph.Transaction
	database *verifDatabase
	graph    string
}

func (s *verifTransaction) WithGraph(target graph.Graph) graph.Transaction {
	return &verifTransaction{database: s.database, graph: target.Name}
}
func (s *verifTransaction) Nodes() graph.NodeQuery {
	return &verifNodeQuery{database: s.database, graph: s.graph}
}
func (s *verifTransaction) Relationships() graph.RelationshipQuery {
	return &verifRelationshipQuery{database: s.database, graph: s.graph}
}

func verifAfterID(criteria graph.Criteria) graph.ID {
	comparison := criteria.(*cypherModel.Comparison)
	parameter := comparison.Partials[0].Right.(*cypherModel.Parameter)
	return parameter.Value.(graph.ID)
}

type verifNodeQuery struct {
	graph.NodeQuery
	database *verifDatabase
	graph    string
	after    graph.ID
	hasAfter bool
	limit    int
}

func (s *verifNodeQuery) Filter(criteria graph.Criteria) graph.NodeQuery {
	s.after, s.hasAfter = verifAfterID(criteria), true
	return s
}
func (s *verifNodeQuery) OrderBy(...graph.Criteria) graph.NodeQuery { return s }
func (s *verifNodeQuery) Limit(limit int) graph.NodeQuery {
	s.limit = limit
	return s
}
func (s *verifNodeQuery) Count() (int64, error) {
	return int64(len(s.database.graphData(s.graph).nodes)), nil
}
func (s *verifNodeQuery) Fetch(delegate func(graph.Cursor[*graph.Node]) error, _ ...graph.Criteria) error {
	s.database.fetches++
	if s.database.failFetch != 0 && s.database.fetches == s.database.failFetch {
		return errors.New("injected cursor failure")
	}
	var values []*graph.Node
	for _, node := range s.database.graphData(s.graph).nodes {
		if (!s.hasAfter || node.ID > s.after) && len(values) < s.limit {
			values = append(values, node)
		}
	}
	return delegate(verifNewCursor(values))
}

type verifRelationshipQuery struct {
	graph.RelationshipQuery
	database *verifDatabase
	graph    string
	after    graph.ID
	hasAfter bool
	limit    int
}

func (s *verifRelationshipQuery) Filter(criteria graph.Criteria) graph.RelationshipQuery {
	s.after, s.hasAfter = verifAfterID(criteria), true
	return s
}
func (s *verifRelationshipQuery) OrderBy(...graph.Criteria) graph.RelationshipQuery { return s }
func (s *verifRelationshipQuery) Limit(limit int) graph.RelationshipQuery {
	s.limit = limit
	return s
}
func (s *verifRelationshipQuery) Count() (int64, error) {
	return int64(len(s.database.graphData(s.graph).relationships)), nil
}
func (s *verifRelationshipQuery) Fetch(delegate func(graph.Cursor[*graph.Relationship]) error) error {
	s.database.fetches++
	if s.database.failFetch != 0 && s.database.fetches == s.database.failFetch {
		return errors.New("injected cursor failure")
	}
	var values []*graph.Relationship
	for _, relationship := range s.database.graphData(s.graph).relationships {
		if (!s.hasAfter || relationship.ID > s.after) && len(values) < s.limit {
			values = append(values, relationship)
		}
	}
	return delegate(verifNewCursor(values))
}

type verifBatch struct {
	graph.Batch
	database *verifDatabase
	graph    string
}

func (s *verifBatch) WithGraph(target graph.Graph) graph.Batch {
	return &verifBatch{database: s.database, graph: target.Name}
}

func (s *verifBatch) CreateNodes(nodes []*graph.Node) ([]graph.ID, error) {
	data := s.database.graphData(s.graph)
	ids := make([]graph.ID, len(nodes))
	for index, node := range nodes {
		s.database.nextID++
		ids[index] = s.database.nextID
		data.nodes = append(data.nodes, graph.NewNode(ids[index], node.Properties, node.Kinds...))
		s.database.mutations = append(s.database.mutations, "node "+s.graph)
	}
	return ids, nil
}

func (s *verifBatch) CreateRelationshipByIDs(startNodeID, endNodeID graph.ID, kind graph.Kind, properties *graph.Properties) error {
	data := s.database.graphData(s.graph)
	s.database.nextID++
	data.relationships = append(data.relationships, graph.NewRelationship(s.database.nextID, startNodeID, endNodeID, properties, kind))
	s.database.mutations = append(s.database.mutations, "edge "+s.graph)
	return nil
}

// ---- scrubber stub -----------------------------------------------------------------------
// With Scrub=full the dump's bookkeeping (action counts per fragment, per graph and per dump,
// checkpoint identity, resume) is the subject; the scrubber itself (TOML configuration,
// regular expressions, HMAC pseudonyms) is replaced by an opaque transformer that keeps the
// properties and reports one pseudonymised and len(properties) preserved values per entity.

func verifNewScrubber(configReader io.Reader, salt string) (*scrubber, error) {
	return &scrubber{config: ScrubberConfig{Salt: strings.TrimSpace(salt), FakeDomain: "example.test", RedactionMarker: "[REDACTED]"}}, nil
}

func verifScrubberForGraph(s *scrubber) *scrubber { return s }

func verifScrubPropertiesWithCounts(s *scrubber, properties map[string]any) (map[string]any, scrubActionCounts) {
	scrubbed := make(map[string]any, len(properties))
	for key, value := range properties {
		scrubbed[key] = value
	}
	return scrubbed, scrubActionCounts{preserve: len(properties), pseudonymize: 1}
}

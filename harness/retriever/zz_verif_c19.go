//go:build verif

package retriever

import (
	"context"
	"encoding/json"
	"path/filepath"
	"strings"
	"time"

	"github.com/specterops/dawgs/graph"
	"github.com/specterops/dawgs/internal/verifrt"
)

// verifNormalisedManifest: the manifest as JSON with the generation time blanked.
func verifNormalisedManifest(dir string) (string, bool) {
	manifest, err := readManifest(dir)
	if err != nil {
		return err.Error(), false
	}
	manifest.GeneratedAt = time.Time{}
	payload, err := json.Marshal(manifest)
	if err != nil {
		return err.Error(), false
	}
	return string(payload), true
}

// verifDumpFiles: the files of a dump directory except the manifest, as "path=content".
func verifDumpFiles(dir string) []string {
	var out []string
	for _, line := range verifSnapshot(dir) {
		if strings.HasSuffix(line, "/") || strings.HasPrefix(line, manifestFileName+"=") {
			continue
		}
		out = append(out, line)
	}
	return out
}

func verifExists(path string) bool {
	_, err := verifOsStat(path)
	return err == nil
}

func verifEqualLines(a, b []string) bool {
	if len(a) != len(b) {
		return false
	}
	for i := range a {
		if a[i] != b[i] {
			return false
		}
	}
	return true
}

func verifFixedSource(n, e, graphs int) (*verifDatabase, []GraphTarget) {
	src := verifNewDatabase()
	targets := []GraphTarget{{Name: "alpha"}}
	data := src.graphData("alpha")
	kinds := []string{"User", "Group", "Computer"}
	for i := 0; i < n; i++ {
		data.nodes = append(data.nodes, graph.NewNode(graph.ID(1+2*i), graph.AsProperties(map[string]any{"name": "n" + string(rune('0'+i))}), graph.StringKind(kinds[i%3])))
	}
	edgeKinds := []string{"MemberOf", "AdminTo"}
	for j := 0; j < e; j++ {
		// the first edge kind occurs only in the first edge
		kind := edgeKinds[1]
		if j == 0 {
			kind = edgeKinds[0]
		}
		data.relationships = append(data.relationships, graph.NewRelationship(graph.ID(50+j), graph.ID(1+2*(j%n)), graph.ID(1+2*((j+1)%n)), graph.AsProperties(map[string]any{"i": j}), graph.StringKind(kind)))
	}
	if graphs > 1 {
		targets = append(targets, GraphTarget{Name: "beta"})
		verifBuildGraph(src, "beta", n, e, true)
	}
	return src, targets
}

// VerifC19Interrupt: a dump is interrupted - mode 0: the process crashes before a file
// system operation, mode 1: a file system operation fails, mode 2: a database cursor fetch
// fails - at every point of the run, then resumed against the unchanged source. Modes 3 and
// 4 are modes 0 and 1 restricted to directory-level operations (create, rename, remove,
// mkdir), which native replays can intercept as well.
//   - after the interruption there is no manifest, unless the dump was already complete
//     (every file of the uninterrupted dump present, manifest equal);
//   - the resume either succeeds with a dump equal to the uninterrupted one (same files,
//     same contents, same manifest up to the generation time, no checkpoint, no temp file)
//     or fails leaving every fragment the checkpoint had committed untouched.
func VerifC19Interrupt(n, e, graphs, mode int) {
	dir := verifWorkDir()
	defer verifCleanupWorkDir(dir)
	ctx := context.Background()
	src, targets := verifFixedSource(n, e, graphs)

	// modes 10, 11, 12: modes 0, 1, 2 with Scrub=full (stub scrubber, see zz_verif_env.go):
	// the scrub action counts of fragments, graphs and the whole dump are part of the manifest
	scrubbed := mode >= 10
	if scrubbed {
		mode -= 10
	}
	coarse := mode >= 3
	if coarse {
		// directory-level operations only: these points can be replayed natively
		mode -= 3
		if verifFS != nil {
			verifFS.coarse = true
		}
	}
	verifNativeFaults.ops, verifNativeFaults.crashAt, verifNativeFaults.failAt = 0, 0, 0
	ref := filepath.Join(dir, "ref")
	options := DefaultDumpOptions(ref)
	options.Compression = CompressionNone
	options.BatchSize = 1 + verifrt.NondetChoice("batch size", 2)
	options.ShardSize = 1 + verifrt.NondetChoice("shard size", 2)
	if scrubbed {
		options.Scrub = ScrubFull
		options.Salt = "pepper"
	}
	_, err := Dump(ctx, src, "test", targets, options)
	verifrt.Assert(err == nil, "the uninterrupted reference dump succeeds")
	if err != nil {
		return
	}
	refManifest, _ := verifNormalisedManifest(ref)
	refFiles := verifDumpFiles(ref)
	refFetches := src.fetches
	refOps := verifNativeFaults.ops
	if verifFS != nil {
		refOps = verifFS.ops
	}

	out := filepath.Join(dir, "dump")
	options.OutputDir = out
	src.fetches = 0
	switch mode {
	case 0:
		if (verifFS == nil && !coarse) || refOps == 0 {
			return
		}
		at := 1 + verifrt.NondetChoice("crash before file system operation", refOps)
		if verifFS != nil {
			verifFS.ops, verifFS.crashAt = 0, at
		} else {
			verifNativeFaults.ops, verifNativeFaults.crashAt = 0, at
		}
	case 1:
		if (verifFS == nil && !coarse) || refOps == 0 {
			return
		}
		at := 1 + verifrt.NondetChoice("failing file system operation", refOps)
		if verifFS != nil {
			verifFS.ops, verifFS.failAt = 0, at
		} else {
			verifNativeFaults.ops, verifNativeFaults.failAt = 0, at
		}
	default:
		src.failFetch = 1 + verifrt.NondetChoice("failing cursor fetch", refFetches)
	}
	var firstErr error
	crashed := verifrt.RunUntilCrash(func() {
		_, firstErr = Dump(ctx, src, "test", targets, options)
	})
	if verifFS != nil {
		verifFS.crashAt, verifFS.failAt = 0, 0
	}
	verifNativeFaults.crashAt, verifNativeFaults.failAt = 0, 0
	src.failFetch = 0
	interrupted := crashed || firstErr != nil
	verifrt.Observe("interrupted", interrupted, "crashed", crashed)
	if !interrupted {
		// the failing operation was one whose error the dump deliberately ignores
		got, ok := verifNormalisedManifest(out)
		verifrt.Assert(ok && got == refManifest, "a dump that reports success equals the uninterrupted one")
		return
	}

	manifestExists := verifExists(filepath.Join(out, manifestFileName))
	if manifestExists {
		got, ok := verifNormalisedManifest(out)
		complete := ok && got == refManifest
		for _, line := range refFiles {
			found := false
			for _, have := range verifDumpFiles(out) {
				found = found || have == line
			}
			complete = complete && found
		}
		verifrt.Assert(complete, "an interrupted dump has no manifest unless it was already complete")
	}

	// what the checkpoint had committed before the resume
	var committed []string
	if checkpoint, err := readDumpCheckpoint(out); err == nil {
		listed := map[string]bool{}
		for _, graphEntry := range checkpoint.Manifest.Graphs {
			for _, fileEntry := range graphEntry.Files {
				listed[fileEntry.Path] = true
			}
		}
		if checkpoint.Current != nil {
			for _, fileEntry := range checkpoint.Current.Files {
				listed[fileEntry.Path] = true
			}
		}
		for _, line := range verifDumpFiles(out) {
			name, _, _ := strings.Cut(line, "=")
			if listed[filepath.ToSlash(name)] {
				committed = append(committed, line)
			}
		}
	}

	options.Resume = true
	src.fetches = 0
	_, err = Dump(ctx, src, "test", targets, options)
	if err == nil {
		got, ok := verifNormalisedManifest(out)
		verifrt.Assert(ok && got == refManifest, "a resumed dump has the manifest of the uninterrupted dump")
		verifrt.Assert(verifEqualLines(verifDumpFiles(out), refFiles), "a resumed dump has exactly the files of the uninterrupted dump, with the same contents, and no checkpoint or temporary file")
		verifrt.Assert(!manifestExists, "a resume does not succeed on a directory that already holds a complete dump")
		return
	}
	after := verifDumpFiles(out)
	for _, line := range committed {
		found := false
		for _, have := range after {
			found = found || have == line
		}
		verifrt.Assert(found, "a failed resume leaves the committed fragments untouched")
	}
	if manifestExists {
		got, ok := verifNormalisedManifest(out)
		verifrt.Assert(ok && got == refManifest, "a failed resume leaves a complete manifest untouched")
	}
}

// VerifC19Refuse: a dump interrupted by a failing cursor fetch is resumed with
// (what=0) another batch size, (1) another shard size, (2) another graph list, (3) a source
// whose counts changed, (4) a file or a symbolic link in the directory the checkpoint does not account for,
// (5) the checkpoint of another driver, (6) a completed graph that was empty and has gained a
// node: the resume must fail.
func VerifC19Refuse(n, e, what int) {
	dir := verifWorkDir()
	defer verifCleanupWorkDir(dir)
	ctx := context.Background()
	src, targets := verifFixedSource(n, e, 1)
	if what == 6 {
		// an empty graph is dumped (and recorded complete) before the one that is interrupted
		src.graphData("empty")
		targets = append([]GraphTarget{{Name: "empty"}}, targets...)
	}
	out := filepath.Join(dir, "dump")
	options := DefaultDumpOptions(out)
	options.Compression = CompressionNone
	options.BatchSize = 1
	options.ShardSize = 1 + verifrt.NondetChoice("shard size", 2)
	// fetch 1 counts nothing; fail somewhere after the first committed fragment
	src.failFetch = 2 + verifrt.NondetChoice("failing cursor fetch", n+e)
	_, err := Dump(ctx, src, "test", targets, options)
	src.failFetch = 0
	if err == nil {
		return
	}
	checkpoint, cerr := readDumpCheckpoint(out)
	if cerr != nil {
		return
	}
	snapshotTaken := len(checkpoint.Manifest.Graphs) > 0 || (checkpoint.Current != nil && checkpoint.Current.HasSnapshot)
	driver := "test"
	options.Resume = true
	switch what {
	case 0:
		options.BatchSize++
	case 1:
		options.ShardSize++
	case 2:
		targets = append(targets, GraphTarget{Name: "gamma"})
	case 3:
		if !snapshotTaken {
			return
		}
		data := src.graphData("alpha")
		data.nodes = append(data.nodes, graph.NewNode(999, graph.NewProperties(), graph.StringKind("User")))
	case 4:
		stray := filepath.Join(out, "graphs", "alpha", "nodes-000099.jsonl")
		place := verifrt.NondetChoice("stray entry (0, 1: files; 2, 3: dangling symbolic links)", 4)
		if place == 1 {
			stray = filepath.Join(out, "notes.txt")
		}
		if place == 3 {
			stray = filepath.Join(out, "graphs", "alpha", "nodes-000099.jsonl.tmp")
		}
		if verifOsMkdirAll(filepath.Dir(stray), 0o755) != nil {
			return
		}
		if place >= 2 {
			// an entry that is neither a directory nor a regular file is unaccounted for too
			if verifOsSymlink(filepath.Join(out, "no-such-target"), stray) != nil {
				return
			}
		} else if verifOsWriteFile(stray, []byte("{}\n"), 0o600) != nil {
			return
		}
	case 6:
		// the completed empty graph gains a node before the resume
		if len(checkpoint.Manifest.Graphs) == 0 {
			return
		}
		data := src.graphData("empty")
		data.nodes = append(data.nodes, graph.NewNode(998, graph.NewProperties(), graph.StringKind("User")))
	default:
		driver = "other"
	}
	before := verifDumpFiles(out)
	_, err = Dump(ctx, src, driver, targets, options)
	verifrt.Assert(err != nil, "a resume with other options, a changed source or unaccounted files is refused")
	if what != 4 {
		verifrt.Assert(verifEqualLines(before, verifDumpFiles(out)) || err == nil, "a refused resume changes nothing in the directory")
	}
}

// VerifC19Identity: two dumps that differ in exactly one of driver, graph list,
// compression, compression level, scrub mode, scrub salt, scrub configuration, shard size
// or batch size have different checkpoint identities.
func VerifC19Identity(field int) {
	if verifrt.Symbolic() {
		verifFS = verifNewFS()
	}
	base := DefaultDumpOptions("/x")
	base.Scrub = ScrubFull
	other := base
	driverA, driverB := "pg", "pg"
	targetsA, targetsB := []GraphTarget{{Name: "alpha"}}, []GraphTarget{{Name: "alpha"}}
	scrubA := &scrubber{config: ScrubberConfig{Salt: verifrt.NondetString("salt a", 2), FakeDomain: "example.test"}}
	scrubB := &scrubber{config: ScrubberConfig{Salt: scrubA.config.Salt, FakeDomain: "example.test"}}
	switch field {
	case 0:
		driverB = "neo4j"
	case 1:
		targetsB = []GraphTarget{{Name: "alpha"}, {Name: "beta"}}
	case 2:
		other.Compression = CompressionNone
	case 3:
		other.ZstdLevel++
	case 4:
		other.Scrub = ScrubNone
		scrubB = nil
	case 5:
		scrubB.config.Salt = verifrt.NondetString("salt b", 2)
		verifrt.Assume(scrubB.config.Salt != scrubA.config.Salt)
	case 6:
		scrubB.config.FakeDomain = "other.test"
	case 7:
		other.ShardSize++
	default:
		other.BatchSize++
	}
	a, errA := newDumpCheckpointIdentity(driverA, targetsA, base, scrubA)
	b, errB := newDumpCheckpointIdentity(driverB, targetsB, other, scrubB)
	verifrt.Assert(errA == nil && errB == nil, "identities can be computed")
	verifrt.Assert(!verifrt.DeepEqual(a, b), "dumps with different options have different checkpoint identities")
	c, _ := newDumpCheckpointIdentity(driverA, targetsA, base, scrubA)
	verifrt.Assert(verifrt.DeepEqual(a, c), "the identity is a function of the options")
}

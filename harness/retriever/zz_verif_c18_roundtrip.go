//go:build verif

package retriever

import (
	"context"
	"crypto/sha256"
	"encoding/hex"
	"encoding/json"
	"os"
	"path/filepath"
	"sort"
	"strings"

	"github.com/specterops/dawgs/graph"
	"github.com/specterops/dawgs/internal/verifrt"
)

// verifWorkDir: a fresh directory for one harness run (model file system in the engine, a
// real temporary directory natively).
func verifWorkDir() string {
	if verifrt.Symbolic() {
		verifFS = verifNewFS()
		verifFS.nodes["/work"] = &verifFSNode{isDir: true}
		return "/work"
	}
	verifFS = nil
	dir, err := os.MkdirTemp("", "verif-retriever-*")
	if err != nil {
		panic(err)
	}
	return dir
}

func verifCleanupWorkDir(dir string) {
	if verifFS == nil {
		os.RemoveAll(dir)
	}
}

func verifDigestHex(data []byte) string {
	digest := sha256.Sum256(data)
	return hex.EncodeToString(digest[:])
}

func verifReadFile(path string) ([]byte, bool) {
	data, err := verifOsReadFile(path)
	return data, err == nil
}

// kind sets, two of which have the same comma-joined spelling
var verifNodeKindPool = [][]string{{"User"}, {"Host", "Role=db,web"}, {}, {"Host", "Role=db", "web"}}

func verifNodeProperties(variant, index int) map[string]any {
	switch variant {
	case 0:
		return map[string]any{"name": "n" + string(rune('0'+index))}
	case 1:
		return map[string]any{"name": "m" + string(rune('0'+index)), "count": index, "tags": []any{"a", "b<c"}, "enabled": true}
	}
	return map[string]any{}
}

// verifBuildGraph fills one graph of db: n nodes (ids 1,3,5,.. or 0,2,4,..), e edges (ids 50,51,.. or 0,1,..)
// whose shapes are chosen nondeterministically.
func verifBuildGraph(db *verifDatabase, name string, n, e int, fixed bool) {
	data := db.graphData(name)
	nodeBase, edgeBase := 1, 50
	if !fixed && verifrt.NondetChoice("ids start at zero", 2) == 1 {
		nodeBase, edgeBase = 0, 0
	}
	for i := 0; i < n; i++ {
		variant := i % 3
		if !fixed {
			variant = verifrt.NondetChoice("node shape", len(verifNodeKindPool))
		}
		var kinds graph.Kinds
		for _, kind := range verifNodeKindPool[variant] {
			kinds = append(kinds, graph.StringKind(kind))
		}
		if fixed {
			kinds = graph.Kinds{graph.StringKind("Computer")}
		}
		data.nodes = append(data.nodes, graph.NewNode(graph.ID(nodeBase+2*i), graph.AsProperties(verifNodeProperties(variant%3, i)), kinds...))
	}
	for j := 0; j < e; j++ {
		start, end, kindIndex := (j+1)%n, j%n, 1
		if !fixed {
			start, end, kindIndex = verifrt.NondetChoice("edge start", n), verifrt.NondetChoice("edge end", n), verifrt.NondetChoice("edge kind", 2)
		}
		properties := map[string]any{}
		if kindIndex == 1 {
			properties = map[string]any{"weight": j + 1, "via": "ldap"}
		}
		kind := graph.StringKind([]string{"MemberOf", "AdminTo"}[kindIndex])
		if fixed {
			kind = graph.StringKind("HasSession")
		}
		data.relationships = append(data.relationships, graph.NewRelationship(graph.ID(edgeBase+j), graph.ID(nodeBase+2*start), graph.ID(nodeBase+2*end), graph.AsProperties(properties), kind))
	}
}

func verifKindStrings(kinds graph.Kinds) string {
	values := kinds.Strings()
	sort.Strings(values)
	return strings.Join(values, ",")
}

func verifJSONOf(properties *graph.Properties) string {
	payload, err := json.Marshal(properties.MapOrEmpty())
	if err != nil {
		return "error: " + err.Error()
	}
	return string(payload)
}

// verifSameGraph: dst is the image of src under the order correspondence of nodes
// (dump writes in source id order, load creates in that order).
func verifSameGraph(src, dst *verifGraphData) (bool, string) {
	if len(src.nodes) != len(dst.nodes) {
		return false, "node count"
	}
	if len(src.relationships) != len(dst.relationships) {
		return false, "relationship count"
	}
	image := map[graph.ID]graph.ID{}
	for i, node := range src.nodes {
		other := dst.nodes[i]
		image[node.ID] = other.ID
		if verifKindStrings(node.Kinds) != verifKindStrings(other.Kinds) {
			return false, "node kinds"
		}
		if verifJSONOf(node.Properties) != verifJSONOf(other.Properties) {
			return false, "node properties"
		}
	}
	for j, relationship := range src.relationships {
		other := dst.relationships[j]
		if image[relationship.StartID] != other.StartID || image[relationship.EndID] != other.EndID {
			return false, "relationship endpoints"
		}
		if relationship.Kind.String() != other.Kind.String() {
			return false, "relationship kind"
		}
		if verifJSONOf(relationship.Properties) != verifJSONOf(other.Properties) {
			return false, "relationship properties"
		}
	}
	return true, ""
}

// verifManifestDescribesFiles: every listed fragment exists with the recorded size, digest
// and line count, nothing else is in the directory, and no checkpoint or temp file is left.
func verifManifestDescribesFiles(dir string, manifest Manifest) (bool, string) {
	expected := map[string]bool{manifestFileName: true}
	for _, graphEntry := range manifest.Graphs {
		var nodes, edges int64
		for _, fileEntry := range graphEntry.Files {
			data, ok := verifReadFile(filepath.Join(dir, filepath.FromSlash(fileEntry.Path)))
			if !ok {
				return false, "listed fragment is missing"
			}
			expected[fileEntry.Path] = true
			if int64(len(data)) != fileEntry.CompressedBytes || int64(len(data)) != fileEntry.UncompressedBytes {
				return false, "fragment byte counts"
			}
			if verifDigestHex(data) != fileEntry.SHA256 {
				return false, "fragment digest"
			}
			if strings.Count(string(data), "\n") != fileEntry.Count {
				return false, "fragment record count"
			}
			if fileEntry.Phase == PhaseNodes {
				nodes += int64(fileEntry.Count)
			} else {
				edges += int64(fileEntry.Count)
			}
		}
		if nodes != graphEntry.NodeCount || edges != graphEntry.EdgeCount {
			return false, "graph counts are the sums of the fragment counts"
		}
	}
	for _, line := range verifSnapshot(dir) {
		if strings.HasSuffix(line, "/") {
			continue
		}
		name, _, _ := strings.Cut(line, "=")
		if !expected[filepath.ToSlash(name)] {
			return false, "unexpected file " + name
		}
	}
	return true, ""
}

// VerifC18RoundTrip: dump a database of one or two graphs, load the dump into an empty
// database: isomorphic graphs, manifest describes the files, Verify succeeds on the loaded
// database and fails after it is changed.
func VerifC18RoundTrip(maxNodes, maxEdges, maxGraphs int) {
	dir := verifWorkDir()
	defer verifCleanupWorkDir(dir)
	out := filepath.Join(dir, "dump")
	ctx := context.Background()

	src := verifNewDatabase()
	n := verifrt.NondetChoice("nodes", maxNodes+1)
	e := 0
	if n > 0 {
		e = verifrt.NondetChoice("edges", maxEdges+1)
	}
	targets := []GraphTarget{{Name: "alpha"}}
	verifBuildGraph(src, "alpha", n, e, false)
	if maxGraphs > 1 {
		// a second graph with the same counts and different content, listed after or before
		// the first one (so the target list is or is not in name order)
		switch verifrt.NondetChoice("second graph", 3) {
		case 1:
			targets = append(targets, GraphTarget{Name: "beta"})
			verifBuildGraph(src, "beta", n, e, true)
		case 2:
			targets = []GraphTarget{{Name: "beta"}, {Name: "alpha"}}
			verifBuildGraph(src, "beta", n, e, true)
		}
	}

	options := DefaultDumpOptions(out)
	options.Compression = CompressionNone
	options.BatchSize = 1 + verifrt.NondetChoice("dump batch size", 2)
	options.ShardSize = 1 + verifrt.NondetChoice("shard size", 2)
	result, err := Dump(ctx, src, "test", targets, options)
	verifrt.Assert(err == nil, "dump of a static source succeeds")
	if err != nil {
		return
	}
	manifest, err := readManifest(out)
	verifrt.Assert(err == nil, "the dump has a readable manifest")
	if err != nil {
		return
	}
	verifrt.Assert(len(manifest.Graphs) == len(targets) && result.NodeCount == int64(n*len(targets)) && result.EdgeCount == int64(e*len(targets)), "the manifest lists every graph with the source counts")
	ok, why := verifManifestDescribesFiles(out, manifest)
	verifrt.Observe(why)
	verifrt.Assert(ok, "the manifest's counts, sizes and checksums describe exactly the files written")
	_, err = Verify(ctx, src, "test", VerifyOptions{InputDir: out, BatchSize: 2})
	verifrt.Assert(err == nil, "the manifest's metrics describe the source")

	dst := verifNewDatabase()
	loadOptions := DefaultLoadOptions(out)
	loadOptions.BatchSize = 1 + verifrt.NondetChoice("load batch size", 2)
	loadOptions.VerifyMetrics = true
	_, err = Load(ctx, dst, "test", loadOptions)
	verifrt.Assert(err == nil, "loading the dump into an empty database succeeds")
	if err != nil {
		return
	}
	for _, target := range targets {
		same, what := verifSameGraph(src.graphData(target.Name), dst.graphData(target.Name))
		verifrt.Observe(target.Name, what)
		verifrt.Assert(same, "the loaded graph is isomorphic to the source graph")
	}
	_, err = Verify(ctx, dst, "test", VerifyOptions{InputDir: out, BatchSize: 2})
	verifrt.Assert(err == nil, "verification of the loaded database succeeds")

	// a database that differs in a count, a kind or an endpoint does not verify
	data := dst.graphData("alpha")
	savedNodes, savedEdges := append([]*graph.Node{}, data.nodes...), append([]*graph.Relationship{}, data.relationships...)
	for change := 0; change < 3; change++ {
		data.nodes, data.relationships = append([]*graph.Node{}, savedNodes...), append([]*graph.Relationship{}, savedEdges...)
		switch change {
		case 0:
			data.nodes = append(data.nodes, graph.NewNode(999, graph.NewProperties(), graph.StringKind("User")))
		case 1:
			if len(data.nodes) == 0 {
				continue
			}
			data.nodes[0] = graph.NewNode(data.nodes[0].ID, data.nodes[0].Properties, graph.StringKind("Other"))
		case 2:
			if len(data.relationships) == 0 || len(data.nodes) < 2 {
				continue
			}
			first := data.relationships[0]
			other := data.nodes[0].ID
			if first.EndID == other {
				other = data.nodes[1].ID
			}
			data.relationships[0] = graph.NewRelationship(first.ID, first.StartID, other, first.Properties, first.Kind)
		}
		_, err = Verify(ctx, dst, "test", VerifyOptions{InputDir: out, BatchSize: 2})
		verifrt.Assert(err != nil, "verification fails when the database differs from the dump")
	}
}

//go:build verif

package retriever

import (
	"context"
	"encoding/json"
	"path/filepath"

	"github.com/specterops/dawgs/internal/verifrt"
)

// verifFragmentPaths lists the fragment paths of a manifest in manifest order.
func verifFragmentPaths(manifest Manifest) []string {
	var out []string
	for _, graphEntry := range manifest.Graphs {
		for _, fileEntry := range graphEntry.Files {
			out = append(out, fileEntry.Path)
		}
	}
	return out
}

// VerifC20Tamper: a valid dump directory is changed in one place and loaded into an
// empty database. Whatever the change - a flipped bit, a truncation or an extension of a
// fragment (kind 0-2), a fragment replaced by another one or by a re-written one of the
// same shape (3,4), a manifest entry that no longer matches its fragment (5), a manifest
// with bytes after its closing brace (6) - Load fails,
// and it fails before any node or relationship has been written.
// verifRewriteFragments re-writes node and edge fragments of a dump record by record and
// brings the manifest's sizes and digests in line with the new contents.
func verifRewriteFragments(out string, manifest Manifest, node func(graphName string, item *FragmentNode), edge func(graphName string, item *FragmentEdge)) bool {
	for gi := range manifest.Graphs {
		for fi := range manifest.Graphs[gi].Files {
			entry := &manifest.Graphs[gi].Files[fi]
			path := filepath.Join(out, filepath.FromSlash(entry.Path))
			data, ok := verifReadFile(path)
			if !ok {
				return false
			}
			var changed []byte
			start := 0
			for i, c := range data {
				if c != '\n' {
					continue
				}
				line := data[start:i]
				start = i + 1
				if entry.Phase == PhaseNodes {
					var item FragmentNode
					if json.Unmarshal(line, &item) != nil {
						return false
					}
					node(manifest.Graphs[gi].Name, &item)
					payload, _ := json.Marshal(item)
					changed = append(append(changed, payload...), '\n')
				} else {
					var item FragmentEdge
					if json.Unmarshal(line, &item) != nil {
						return false
					}
					edge(manifest.Graphs[gi].Name, &item)
					payload, _ := json.Marshal(item)
					changed = append(append(changed, payload...), '\n')
				}
			}
			if verifOsWriteFile(path, changed, 0o600) != nil {
				return false
			}
			entry.SHA256 = verifDigestHex(changed)
			entry.CompressedBytes, entry.UncompressedBytes = int64(len(changed)), int64(len(changed))
		}
	}
	payload, _ := json.MarshalIndent(manifest, "", "  ")
	return verifOsWriteFile(filepath.Join(out, manifestFileName), append(payload, '\n'), 0o600) == nil
}

// VerifC20CrossGraph: a self-consistent forged collection (digests and sizes match) of two
// graphs in which one relationship of the second graph points at a source node id that
// exists only in the first graph (a non-numeric id, or a numeric one). Load must fail before
// anything is written.
func VerifC20CrossGraph(n, e int) {
	dir := verifWorkDir()
	defer verifCleanupWorkDir(dir)
	ctx := context.Background()
	src, targets := verifFixedSource(n, e, 2)
	out := filepath.Join(dir, "dump")
	options := DefaultDumpOptions(out)
	options.Compression = CompressionNone
	options.BatchSize = 2
	options.ShardSize = 1 + verifrt.NondetChoice("shard size", 2)
	if _, err := Dump(ctx, src, "test", targets, options); err != nil {
		verifrt.Fail("the dump that is to be forged failed")
	}
	manifest, err := readManifest(out)
	if err != nil {
		verifrt.Fail("the dump has no readable manifest")
	}
	foreign := []string{"svc-a", "7777"}[verifrt.NondetChoice("foreign id", 2)]
	useStart := verifrt.NondetChoice("forged endpoint is the start", 2) == 1
	forgedEdges := 0
	ok := verifRewriteFragments(out, manifest, func(graphName string, item *FragmentNode) {
		// the first graph's first node gets the foreign id
		if graphName == "alpha" && item.ID == "1" {
			item.ID = foreign
		}
	}, func(graphName string, item *FragmentEdge) {
		if graphName == "alpha" {
			if item.StartID == "1" {
				item.StartID = foreign
			}
			if item.EndID == "1" {
				item.EndID = foreign
			}
			return
		}
		if forgedEdges == 0 {
			if useStart {
				item.StartID = foreign
			} else {
				item.EndID = foreign
			}
			forgedEdges++
		}
	})
	if !ok || forgedEdges == 0 {
		return
	}
	dst := verifNewDatabase()
	loadOptions := DefaultLoadOptions(out)
	loadOptions.BatchSize = 2
	_, err = Load(ctx, dst, "test", loadOptions)
	verifrt.Assert(err != nil, "a relationship whose endpoint exists only in another graph is rejected")
	verifrt.Assert(len(dst.mutations) == 0, "nothing is written to the target database when the input is rejected")
}

// VerifC20GraphCounts: a collection of a non-empty graph followed by an empty one whose
// manifest is edited so that a graph's counts no longer match its fragment list (the empty
// graph claims entities; the first graph's fragment list is emptied), or so that one
// fragment's record count and its graph's total move together away from the fragment's
// contents. Load must fail before anything is written.
func VerifC20GraphCounts(n, e int) {
	dir := verifWorkDir()
	defer verifCleanupWorkDir(dir)
	ctx := context.Background()
	src, targets := verifFixedSource(n, e, 1)
	src.graphData("omega")
	targets = append(targets, GraphTarget{Name: "omega"})
	out := filepath.Join(dir, "dump")
	options := DefaultDumpOptions(out)
	options.Compression = CompressionNone
	options.BatchSize = 2
	options.ShardSize = 2
	if _, err := Dump(ctx, src, "test", targets, options); err != nil {
		verifrt.Fail("the dump that is to be edited failed")
	}
	manifest, err := readManifest(out)
	if err != nil || len(manifest.Graphs) != 2 {
		verifrt.Fail("the dump has no readable manifest")
	}
	switch verifrt.NondetChoice("edit", 5) {
	case 4:
		// the record count of one fragment and the graph total move together (the manifest
		// stays consistent with itself) away from what the fragment holds
		files := manifest.Graphs[0].Files
		f := verifrt.NondetChoice("fragment", len(files))
		delta := 1
		if verifrt.NondetChoice("count raised", 2) == 0 {
			delta = -1
		}
		files[f].Count += delta
		if files[f].Phase == PhaseNodes {
			manifest.Graphs[0].NodeCount += int64(delta)
		} else {
			manifest.Graphs[0].EdgeCount += int64(delta)
		}
	case 0:
		manifest.Graphs[1].NodeCount = 1
	case 1:
		manifest.Graphs[1].EdgeCount = 2
	case 2:
		manifest.Graphs[1].NodeCount, manifest.Graphs[1].EdgeCount = 3, 1
	default:
		// the second graph keeps its counts of zero but is listed first; the first graph's
		// fragment list is emptied while its counts stay
		manifest.Graphs[0].Files = nil
	}
	if verifrt.NondetChoice("metrics section dropped", 2) == 1 {
		// the metrics section repeats the counts; a forger simply leaves it out
		manifest.Metrics = nil
	}
	payload, _ := json.MarshalIndent(manifest, "", "  ")
	if verifOsWriteFile(filepath.Join(out, manifestFileName), append(payload, '\n'), 0o600) != nil {
		return
	}
	dst := verifNewDatabase()
	loadOptions := DefaultLoadOptions(out)
	loadOptions.BatchSize = 2
	_, err = Load(ctx, dst, "test", loadOptions)
	verifrt.Assert(err != nil, "a manifest whose graph counts contradict its fragment lists is rejected")
	verifrt.Assert(len(dst.mutations) == 0, "nothing is written to the target database when the input is rejected")
}

func VerifC20Tamper(n, e, kind int) {
	dir := verifWorkDir()
	defer verifCleanupWorkDir(dir)
	ctx := context.Background()
	src, targets := verifFixedSource(n, e, 1)
	out := filepath.Join(dir, "dump")
	options := DefaultDumpOptions(out)
	options.Compression = CompressionNone
	options.BatchSize = 2
	options.ShardSize = 1 + verifrt.NondetChoice("shard size", 2)
	if _, err := Dump(ctx, src, "test", targets, options); err != nil {
		verifrt.Fail("the dump that is to be tampered with failed")
	}
	manifest, err := readManifest(out)
	if err != nil {
		verifrt.Fail("the dump has no readable manifest")
	}
	paths := verifFragmentPaths(manifest)
	if len(paths) == 0 {
		return
	}
	victim := paths[verifrt.NondetChoice("fragment", len(paths))]
	victimPath := filepath.Join(out, filepath.FromSlash(victim))
	data, _ := verifReadFile(victimPath)
	if len(data) == 0 {
		return
	}
	changed := append([]byte{}, data...)
	switch kind {
	case 0:
		pos := verifrt.NondetChoice("byte", len(data))
		changed[pos] ^= 1 << uint(verifrt.NondetChoice("bit", 8))
	case 1:
		changed = changed[:verifrt.NondetChoice("truncate to", len(data))]
	case 2:
		extra := [][]byte{{'\n'}, {' '}, {'{', '}', '\n'}, data}
		changed = append(changed, extra[verifrt.NondetChoice("extension", len(extra))]...)
	case 3:
		other := paths[verifrt.NondetChoice("other fragment", len(paths))]
		if other == victim {
			return
		}
		changed, _ = verifReadFile(filepath.Join(out, filepath.FromSlash(other)))
	case 4:
		// the same number of well-formed records with other content: every node renamed, or
		// every relationship given another kind
		var lines [][]byte
		start := 0
		for i, c := range data {
			if c == '\n' {
				lines = append(lines, data[start:i])
				start = i + 1
			}
		}
		changed = nil
		for _, line := range lines {
			var node FragmentNode
			var edge FragmentEdge
			if json.Unmarshal(line, &edge) == nil && edge.StartID != "" {
				edge.Kind = "Owns"
				payload, _ := json.Marshal(edge)
				changed = append(append(changed, payload...), '\n')
			} else if json.Unmarshal(line, &node) == nil {
				node.Kinds = []string{"Forged"}
				payload, _ := json.Marshal(node)
				changed = append(append(changed, payload...), '\n')
			}
		}
	case 6:
		// the manifest itself is extended: bytes after its closing brace
		manifestPath := filepath.Join(out, manifestFileName)
		original, _ := verifReadFile(manifestPath)
		suffix := []string{"x", "{}", "}", " null", "\x00", "{\"format\":"}[verifrt.NondetChoice("manifest suffix", 6)]
		if verifOsWriteFile(manifestPath, append(append([]byte{}, original...), suffix...), 0o600) != nil {
			return
		}
		changed = data
	default:
		// the manifest entry of the victim no longer matches the fragment
		for gi := range manifest.Graphs {
			for fi := range manifest.Graphs[gi].Files {
				entry := &manifest.Graphs[gi].Files[fi]
				if entry.Path != victim {
					continue
				}
				switch verifrt.NondetChoice("manifest field", 4) {
				case 0:
					entry.Count++
				case 1:
					entry.CompressedBytes++
				case 2:
					entry.SHA256 = verifDigestHex([]byte("something else"))
				default:
					if entry.Phase == PhaseNodes {
						entry.Phase = PhaseEdges
					} else {
						entry.Phase = PhaseNodes
					}
				}
			}
		}
		payload, _ := json.MarshalIndent(manifest, "", "  ")
		if verifOsWriteFile(filepath.Join(out, manifestFileName), append(payload, '\n'), 0o600) != nil {
			return
		}
		changed = data
	}
	if kind != 5 && kind != 6 {
		if string(changed) == string(data) {
			return
		}
		if verifOsWriteFile(victimPath, changed, 0o600) != nil {
			return
		}
	}

	dst := verifNewDatabase()
	loadOptions := DefaultLoadOptions(out)
	loadOptions.BatchSize = 2
	_, err = Load(ctx, dst, "test", loadOptions)
	verifrt.Assert(err != nil, "loading a dump that differs from what was produced fails")
	verifrt.Assert(len(dst.mutations) == 0, "nothing is written to the target database when the input is rejected")
}

//go:build verif

package retriever

import (
	"path/filepath"
	"strings"

	"github.com/specterops/dawgs/internal/verifrt"
)

// VerifC20Path: for every entry name of n bytes, sanitizeArchivePath either rejects it or
// returns a relative, slash-separated path without "..", volume or back-slash that
// filepath.Join keeps under the output directory (DESIGN G.7). The real strings.TrimSpace,
// strings.Split/Contains, path.Clean, path.IsAbs and filepath.IsAbs/Join are executed
// symbolically. ascii=1 restricts the bytes to 0x01..0x7F.
func VerifC20Path(n int, ascii int) {
	name := verifrt.NondetString("entry name", n)
	for i := 0; i < len(name); i++ {
		verifrt.Assume(name[i] != 0)
		if ascii == 1 {
			verifrt.Assume(name[i] < 0x80)
		}
	}
	r, err := sanitizeArchivePath(name)
	if err != nil {
		return // rejecting is always safe
	}
	verifrt.Assert(len(r) > 0, "accepted path is not empty")
	verifrt.Assert(r[0] != '/', "accepted path is relative")
	for i := 0; i < len(r); i++ {
		verifrt.Assert(r[i] != '\\', "accepted path has no back-slash")
	}
	// NOTE: "./c:x" is accepted and cleaned to "c:x" (the volume-name test runs before
	// path.Clean). The statement only requires that nothing is written outside the output
	// directory, and filepath.Join keeps such a name inside it, so this is not asserted.
	for _, part := range strings.Split(r, "/") {
		verifrt.Assert(part != "..", "accepted path has no parent component")
	}
	joined := filepath.Join("/out", r)
	verifrt.Assert(strings.HasPrefix(joined, "/out/"), "joined with the output directory the path stays inside it")
	verifrt.Assert(joined == "/out/"+r, "accepted path is already clean")
}

func VerifC20PathWitness() {
	r, err := sanitizeArchivePath(verifrt.NondetString("entry name", 3))
	if err == nil && len(r) == 3 {
		verifrt.Assert(false, "witness: a 3 byte name is accepted on some path")
	}
}

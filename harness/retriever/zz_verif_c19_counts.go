//go:build verif

package retriever

import "github.com/specterops/dawgs/internal/verifrt"

// VerifC19ActionCounts (lemma for "a resumed dump has a consistent manifest"): dumpGraph
// re-seeds the per-graph scrub action counters of a resumed dump from the fragments the
// checkpoint has already committed (checkpointActionCounts). For every validated fragment
// list - node fragments before edge fragments, n fragments, any split - with symbolic
// counts per action, the restored counters of either phase are the sums over exactly that
// phase's fragments.
func VerifC19ActionCounts(n int) {
	nodeFragments := verifrt.NondetChoice("node fragments", n+1)
	actions := []PropertyAction{actionPreserve, actionPseudonymize, actionRedact, actionShiftTimestamp}
	var files []FileManifest
	want := map[Phase]*[4]int{PhaseNodes: {}, PhaseEdges: {}}
	for i := 0; i < n; i++ {
		phase := PhaseEdges
		if i < nodeFragments {
			phase = PhaseNodes
		}
		counts := map[string]int{}
		for a, action := range actions {
			c := int(verifrt.NondetUint16("count"))
			counts[string(action)] = c
			want[phase][a] += c
		}
		files = append(files, FileManifest{Phase: phase, ActionCounts: counts})
	}
	for _, phase := range []Phase{PhaseNodes, PhaseEdges} {
		got := checkpointActionCounts(files, phase)
		w := want[phase]
		verifrt.Assert(got.preserve == w[0] && got.pseudonymize == w[1] && got.redact == w[2] && got.shift == w[3], "restored scrub action counts are the sums over the committed fragments of that phase")
	}
}

//go:build verif

package retriever

import (
	"archive/tar"
	"bytes"
	"context"
	"path/filepath"
	"strings"

	"github.com/specterops/dawgs/internal/verifrt"
)

// verifOutside lists what exists under root except the subtrees given in allowed.
func verifOutside(root string, allowed ...string) []string {
	var out []string
	for _, line := range verifSnapshot(root) {
		name, _, _ := strings.Cut(line, "=")
		name = strings.TrimSuffix(name, "/")
		inside := false
		for _, prefix := range allowed {
			inside = inside || name == prefix || strings.HasPrefix(name, prefix+"/")
		}
		if !inside {
			out = append(out, name)
		}
	}
	return out
}

// VerifC20Archive: a dump is packed into an encrypted archive and unpacked.
// kind 0: untouched - unpacking reproduces the dump, and loading from the archive gives the
// source graph. kind 1: one bit flipped at a position of the archive (every stride-th byte),
// kind 2: truncated there, kind 3: opened with another private key - unpacking and loading
// fail, the output directory does not come into existence, no staging directory is left,
// nothing else is created, and nothing is written to the database.
func VerifC20Archive(n, e, kind, stride int) {
	dir := verifWorkDir()
	defer verifCleanupWorkDir(dir)
	ctx := context.Background()
	public, private, other := verifArchiveKeys()
	src, targets := verifFixedSource(n, e, 1)
	dump := filepath.Join(dir, "dump")
	options := DefaultDumpOptions(dump)
	options.Compression = CompressionNone
	options.BatchSize = 2
	options.ShardSize = 2
	if _, err := Dump(ctx, src, "test", targets, options); err != nil {
		verifrt.Fail("the dump that is to be archived failed")
	}
	var archive bytes.Buffer
	if err := WriteEncryptedCollectionArchive(&archive, dump, public); err != nil {
		verifrt.Fail("the dump cannot be archived: " + err.Error())
	}
	original := archive.Bytes()
	changed := append([]byte{}, original...)
	key := private
	switch kind {
	case 1:
		pos := stride * verifrt.NondetChoice("position", (len(original)+stride-1)/stride)
		changed[pos] ^= 1 << uint(verifrt.NondetChoice("bit", 8))
	case 2:
		changed = changed[:stride*verifrt.NondetChoice("position", (len(original)+stride-1)/stride)]
	case 3:
		key = other
	}
	out := filepath.Join(dir, "unpacked")
	err := Unpack(UnpackOptions{ArchiveReader: bytes.NewReader(changed), ArchiveIdentity: key, OutputDir: out})
	dst := verifNewDatabase()
	loadOptions := LoadOptions{ArchiveReader: bytes.NewReader(changed), ArchiveIdentity: key, BatchSize: 2}
	_, loadErr := Load(ctx, dst, "test", loadOptions)
	if kind == 0 {
		verifrt.Assert(err == nil, "an untouched archive unpacks")
		if err != nil {
			return
		}
		verifrt.Assert(verifEqualLines(verifSnapshot(out), verifSnapshot(dump)), "the unpacked directory equals the archived dump")
		verifrt.Assert(len(verifOutside(dir, "dump", "unpacked")) == 0, "unpacking leaves nothing but the output directory")
		verifrt.Assert(loadErr == nil, "loading from an untouched archive succeeds")
		if loadErr == nil {
			same, _ := verifSameGraph(src.graphData("alpha"), dst.graphData("alpha"))
			verifrt.Assert(same, "the graph loaded from the archive is the source graph")
		}
		return
	}
	verifrt.Assert(err != nil, "unpacking an archive that differs from what was produced fails")
	verifrt.Assert(!verifExists(out), "a failed unpack leaves no output directory behind")
	verifrt.Observe(verifOutside(dir, "dump"))
	verifrt.Assert(len(verifOutside(dir, "dump")) == 0, "a failed unpack leaves no staging directory or other file behind")
	verifrt.Assert(loadErr != nil, "loading from an archive that differs from what was produced fails")
	verifrt.Assert(len(dst.mutations) == 0, "nothing is written to the target database when the archive is rejected")
}

// VerifC20ExtraEntries: a well-formed encrypted archive that contains every file of a
// valid dump collection plus one more regular file with a harmless looking name, before or
// after them. The archive is not what was produced: unpacking fails and leaves nothing.
func VerifC20ExtraEntries(n, e int) {
	dir := verifWorkDir()
	defer verifCleanupWorkDir(dir)
	ctx := context.Background()
	public, private, _ := verifArchiveKeys()
	src, targets := verifFixedSource(n, e, 1)
	dump := filepath.Join(dir, "dump")
	options := DefaultDumpOptions(dump)
	options.Compression = CompressionNone
	options.BatchSize = 2
	options.ShardSize = 2
	if _, err := Dump(ctx, src, "test", targets, options); err != nil {
		verifrt.Fail("the dump that is to be archived failed")
	}
	manifest, err := readManifest(dump)
	if err != nil {
		verifrt.Fail("the dump has no readable manifest")
	}
	extraNames := []string{"evil.sh", ".ssh/authorized_keys", "graphs/alpha/nodes-999999.jsonl", "graphs/other/edges-000001.jsonl", "manifest.json.bak"}
	extra := extraNames[verifrt.NondetChoice("extra entry", len(extraNames))]
	first := verifrt.NondetChoice("extra entry comes first", 2) == 1

	var archive bytes.Buffer
	encrypted, err := NewEncryptedArchiveWriter(&archive, public)
	if err != nil {
		verifrt.Fail("cannot create the archive writer")
	}
	tarWriter := tar.NewWriter(encrypted)
	write := func(name string, body []byte) {
		header := &tar.Header{Typeflag: tar.TypeReg, Name: name, Mode: 0o600, Size: int64(len(body)), Format: tar.FormatUSTAR}
		if tarWriter.WriteHeader(header) != nil {
			verifrt.Fail("cannot write a tar header")
		}
		tarWriter.Write(body)
	}
	if first {
		write(extra, []byte("#!/bin/sh\n"))
	}
	for _, name := range append([]string{manifestFileName}, verifFragmentPaths(manifest)...) {
		body, ok := verifReadFile(filepath.Join(dump, filepath.FromSlash(name)))
		if !ok {
			verifrt.Fail("cannot read a dump file")
		}
		write(name, body)
	}
	if !first {
		write(extra, []byte("#!/bin/sh\n"))
	}
	if tarWriter.Close() != nil || encrypted.Close() != nil {
		verifrt.Fail("cannot finish the archive")
	}
	out := filepath.Join(dir, "out")
	err = Unpack(UnpackOptions{ArchiveReader: bytes.NewReader(archive.Bytes()), ArchiveIdentity: private, OutputDir: out})
	verifrt.Assert(err != nil, "an archive with entries the manifest does not list is rejected")
	verifrt.Assert(!verifExists(out), "a rejected archive leaves no output directory behind")
	verifrt.Assert(len(verifOutside(dir, "dump")) == 0, "a rejected archive leaves no staging directory or other file behind")
}

type verifTarEntry struct {
	name     string
	typeflag byte
	linkname string
	body     string
}

// VerifC20HostileTar: a well-formed encrypted archive whose tar stream contains a hostile
// entry (parent traversal, absolute or volume paths, back-slashes, links, directories,
// devices, duplicates) next to valid ones is unpacked. Nothing may be created outside the
// output directory, and a rejected archive leaves no output directory.
func VerifC20HostileTar() {
	dir := verifWorkDir()
	defer verifCleanupWorkDir(dir)
	public, private, _ := verifArchiveKeys()
	hostile := []verifTarEntry{
		{name: "../evil.txt", typeflag: tar.TypeReg, body: "x"},
		{name: "a/../../evil.txt", typeflag: tar.TypeReg, body: "x"},
		{name: "/abs/evil.txt", typeflag: tar.TypeReg, body: "x"},
		{name: "c:evil.txt", typeflag: tar.TypeReg, body: "x"},
		{name: "a\\..\\evil.txt", typeflag: tar.TypeReg, body: "x"},
		{name: "link", typeflag: tar.TypeSymlink, linkname: "../../evil"},
		{name: "hard", typeflag: tar.TypeLink, linkname: "../evil.txt"},
		{name: "subdir/", typeflag: tar.TypeDir},
		{name: "dev", typeflag: tar.TypeChar},
		{name: "manifest.json", typeflag: tar.TypeReg, body: "{}"},
		{name: "./manifest.json", typeflag: tar.TypeReg, body: "{}"},
		{name: " ", typeflag: tar.TypeReg, body: "x"},
		{name: "graphs/../../../evil.txt", typeflag: tar.TypeReg, body: "x"},
		{name: "..", typeflag: tar.TypeReg, body: "x"},
	}
	entry := hostile[verifrt.NondetChoice("hostile entry", len(hostile))]
	first := verifrt.NondetChoice("hostile entry comes first", 2) == 1

	var archive bytes.Buffer
	encrypted, err := NewEncryptedArchiveWriter(&archive, public)
	if err != nil {
		verifrt.Fail("cannot create the archive writer")
	}
	tarWriter := tar.NewWriter(encrypted)
	write := func(item verifTarEntry) {
		header := &tar.Header{Typeflag: item.typeflag, Name: item.name, Linkname: item.linkname, Mode: 0o600, Size: int64(len(item.body)), Format: tar.FormatUSTAR}
		if item.typeflag != tar.TypeReg {
			header.Size = 0
		}
		if tarWriter.WriteHeader(header) != nil {
			verifrt.Fail("cannot write a tar header")
		}
		if item.typeflag == tar.TypeReg {
			tarWriter.Write([]byte(item.body))
		}
	}
	if first {
		write(entry)
	}
	write(verifTarEntry{name: "manifest.json", typeflag: tar.TypeReg, body: "{}"})
	write(verifTarEntry{name: "graphs/alpha/nodes-000001.jsonl", typeflag: tar.TypeReg, body: "{}\n"})
	if !first {
		write(entry)
	}
	if tarWriter.Close() != nil || encrypted.Close() != nil {
		verifrt.Fail("cannot finish the archive")
	}

	out := filepath.Join(dir, "out")
	err = Unpack(UnpackOptions{ArchiveReader: bytes.NewReader(archive.Bytes()), ArchiveIdentity: private, OutputDir: out})
	created := verifOutside(dir, "out")
	verifrt.Observe(entry.name, created)
	verifrt.Assert(len(created) == 0, "unpacking never creates anything outside the requested output directory")
	verifrt.Assert(err != nil, "an archive that is not a dump collection is rejected")
	verifrt.Assert(!verifExists(out), "a rejected archive leaves no output directory behind")
}

//go:build verif

package retriever

import (
	"errors"

	"github.com/specterops/dawgs/graph"
	"github.com/specterops/dawgs/internal/verifrt"
)

// VerifC18Scan: scanEntityBatches against an adversarial cursor reader (arbitrary ids,
// short, long or failing batches). It may return nil only if the handled ids are exactly
// Total-AlreadyProcessed strictly increasing ids above the start cursor; every batch stays
// within the requested limit; the processed count it returns always equals
// AlreadyProcessed + number of handled records; batch events add up.
func VerifC18Scan(maxTotal int) {
	total := int64(verifrt.NondetChoice("total", maxTotal+1))
	batchSize := verifrt.NondetChoice("batch size", 3) + 1
	already := int64(verifrt.NondetChoice("already processed", maxTotal+1))
	hasStart := verifrt.NondetChoice("has start cursor", 2) == 1
	start := graph.ID(verifrt.NondetUint64("start after id"))

	var handled []graph.ID
	batches, eventCount, lastProcessed := 0, 0, int64(-1)
	readerErr := errors.New("reader failed")
	opts := entityScanOptions[graph.ID]{
		Total: total, BatchSize: batchSize, EntityName: "node",
		StartAfterID: start, HasStartAfterID: hasStart, AlreadyProcessed: already,
		ID: func(id graph.ID) graph.ID { return id },
		Read: func(afterID graph.ID, hasAfterID bool, limit int, visit func(graph.ID) error) error {
			batches++
			verifrt.Assume(batches <= 4)
			verifrt.Assert(limit >= 1 && limit <= batchSize, "a batch requests between 1 and BatchSize records")
			verifrt.Assert(int64(limit) <= total-already-int64(len(handled)), "a batch never requests more than what remains")
			if len(handled) > 0 {
				verifrt.Assert(verifrt.And(hasAfterID, afterID == handled[len(handled)-1]), "the cursor passed to the reader is the last handled id")
			} else {
				verifrt.Assert(hasAfterID == hasStart, "the first batch starts at the configured cursor")
				if hasStart {
					verifrt.Assert(afterID == start, "the first batch starts at the configured cursor id")
				}
			}
			n := verifrt.NondetChoice("records delivered", limit+2)
			for i := 0; i < n; i++ {
				if err := visit(graph.ID(verifrt.NondetUint64("record id"))); err != nil {
					return err
				}
			}
			if verifrt.NondetChoice("reader error", 2) == 1 {
				return readerErr
			}
			return nil
		},
		Handle: func(id graph.ID) error {
			handled = append(handled, id)
			return nil
		},
		BatchComplete: func(ev ScanBatchEvent) error {
			eventCount += ev.Count
			verifrt.Assert(ev.Count >= 0 && ev.Count <= batchSize, "batch event count within the batch size")
			verifrt.Assert(ev.Processed == already+int64(len(handled)), "batch event reports the running processed count")
			verifrt.Assert(ev.Processed >= lastProcessed, "processed count never shrinks")
			lastProcessed = ev.Processed
			return nil
		},
	}
	processed, err := scanEntityBatches(opts)
	if total <= 0 {
		verifrt.Assert(err == nil && processed == 0 && len(handled) == 0, "an empty scan does nothing")
		return
	}
	// handled ids are strictly increasing and above the start cursor whatever the outcome
	for i, id := range handled {
		if i > 0 {
			verifrt.Assert(handled[i-1] < id, "handled ids are strictly increasing")
		} else if hasStart {
			verifrt.Assert(start < id, "handled ids are above the start cursor")
		}
	}
	if err == nil {
		verifrt.Assert(already >= 0 && already <= total, "a successful scan had a consistent resume position")
		verifrt.Assert(already == 0 || hasStart, "a successful resumed scan had a start cursor")
		verifrt.Assert(processed == total, "a successful scan reports Total processed")
		verifrt.Assert(int64(len(handled)) == total-already, "a successful scan handled exactly Total-AlreadyProcessed records")
		verifrt.Assert(eventCount == len(handled), "batch events add up to the handled records")
	} else if already >= 0 && already <= total && (already == 0 || hasStart) {
		verifrt.Assert(processed == already+int64(len(handled)), "on error the processed count equals the records handled so far")
	} else {
		verifrt.Assert(len(handled) == 0, "an inconsistent resume position handles nothing")
	}
}

func VerifC18ScanWitness() {
	n := 0
	_, err := scanEntityBatches(entityScanOptions[graph.ID]{Total: 2, BatchSize: 1, ID: func(id graph.ID) graph.ID { return id },
		Read: func(afterID graph.ID, hasAfterID bool, limit int, visit func(graph.ID) error) error {
			return visit(graph.ID(verifrt.NondetUint64("record id")))
		}, Handle: func(graph.ID) error { n++; return nil }})
	if err == nil && n == 2 {
		verifrt.Assert(false, "witness: a two record scan succeeds on some path")
	}
}

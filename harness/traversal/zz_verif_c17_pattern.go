//go:build verif

package traversal

import (
	"context"
	"sync"

	"github.com/specterops/dawgs/cypher/models/cypher"
	"github.com/specterops/dawgs/graph"
	"github.com/specterops/dawgs/internal/verifrt"
	"github.com/specterops/dawgs/query"
	"github.com/specterops/dawgs/util/size"
)

// A stub database over a fixed edge list for the pattern-expansion driver: the only query it
// answers is "relationships whose start (end) id equals X", which is what
// expansion.PrepareCriteria asks; every other conjunct must be the harness's own marker.
type verifPatternDatabase struct {
	graph.Database
	nodes []*graph.Node
	edges []*graph.Relationship
}

func (s *verifPatternDatabase) ReadTransaction(ctx context.Context, delegate graph.TransactionDelegate, _ ...graph.TransactionOption) error {
	return delegate(&verifPatternTransaction{db: s})
}

type verifPatternTransaction struct {
	graph.Transaction
	db *verifPatternDatabase
}

func (s *verifPatternTransaction) GraphQueryMemoryLimit() size.Size { return 0 }
func (s *verifPatternTransaction) Relationships() graph.RelationshipQuery {
	return &verifPatternQuery{db: s.db}
}

type verifPatternQuery struct {
	graph.RelationshipQuery
	db       *verifPatternDatabase
	criteria graph.Criteria
}

func (s *verifPatternQuery) Filter(criteria graph.Criteria) graph.RelationshipQuery {
	s.criteria = criteria
	return s
}

// verifBoundID finds the conjunct id(<symbol>) = <parameter> of a conjunction; found is
// the number of such conjuncts.
func verifBoundID(criteria graph.Criteria, symbol string) (id graph.ID, found int) {
	conjunction, ok := criteria.(*cypher.Conjunction)
	verifrt.Assert(ok, "the driver filters with a conjunction")
	if !ok {
		return 0, 0
	}
	for _, expression := range conjunction.Expressions {
		comparison, ok := expression.(*cypher.Comparison)
		if !ok || len(comparison.Partials) != 1 {
			continue
		}
		call, ok := comparison.Left.(*cypher.FunctionInvocation)
		if !ok || call.Name != cypher.IdentityFunction || len(call.Arguments) != 1 {
			continue
		}
		variable, ok := call.Arguments[0].(*cypher.Variable)
		if !ok || variable.Symbol != symbol {
			continue
		}
		if parameter, ok := comparison.Partials[0].Right.(*cypher.Parameter); ok {
			if value, ok := parameter.Value.(graph.ID); ok {
				id = value
				found++
			}
		}
	}
	return id, found
}

type verifPatternCursor struct {
	results chan graph.DirectionalResult
}

func (s *verifPatternCursor) Error() error                       { return nil }
func (s *verifPatternCursor) Close()                             {}
func (s *verifPatternCursor) Chan() chan graph.DirectionalResult { return s.results }

func (s *verifPatternQuery) FetchDirection(direction graph.Direction, delegate func(cursor graph.Cursor[graph.DirectionalResult]) error) error {
	startID, startBound := verifBoundID(s.criteria, query.EdgeStartSymbol)
	endID, endBound := verifBoundID(s.criteria, query.EdgeEndSymbol)
	verifrt.Assert(startBound+endBound == 1, "an expansion query binds exactly one end of the relationship, once")
	results := make(chan graph.DirectionalResult, len(s.db.edges))
	for _, edge := range s.db.edges {
		if startBound == 1 && edge.StartID == startID {
			results <- graph.NewDirectionalResult(direction, edge, s.db.nodes[int(edge.EndID)])
		}
		if endBound == 1 && edge.EndID == endID {
			results <- graph.NewDirectionalResult(direction, edge, s.db.nodes[int(edge.StartID)])
		}
	}
	close(results)
	return delegate(&verifPatternCursor{results: results})
}

// VerifC17Pattern: a parallel breadth-first traversal driven by the pattern-expansion API
// (NewPattern().Outbound(criteria...).Do) over a tree (node i has the children 2i+1 and
// 2i+2 below n), with `workers` workers under every schedule the bounded scheduler allows.
// The criteria list handed to the pattern has spare capacity (assembled with append), or
// not. Every delivered path is a real root-to-leaf path of the tree, each leaf is delivered
// exactly once, and (race detector) the workers share no unsynchronised memory.
func VerifC17Pattern(n, workers, preemptions int) {
	db := &verifPatternDatabase{}
	for i := 0; i < n; i++ {
		db.nodes = append(db.nodes, graph.NewNode(graph.ID(i), graph.NewProperties()))
	}
	for child := 1; child < n; child++ {
		db.edges = append(db.edges, graph.NewRelationship(graph.ID(100+child), graph.ID((child-1)/2), graph.ID(child), graph.NewProperties(), graph.StringKind("E")))
	}
	var criteria []graph.Criteria
	switch verifrt.NondetChoice("criteria list (0 empty, 1 exact, 2 spare capacity)", 3) {
	case 1:
		criteria = []graph.Criteria{query.KindIn(query.Relationship(), graph.StringKind("E"))}
	case 2:
		criteria = make([]graph.Criteria, 0, 4)
		criteria = append(criteria, query.KindIn(query.Relationship(), graph.StringKind("E")))
	}
	var mu sync.Mutex
	delivered := make([]int, n)
	driver := NewPattern().Outbound(criteria...).Do(func(terminal *graph.PathSegment) error {
		path := terminal.Path()
		mu.Lock()
		delivered[int(terminal.Node.ID)]++
		mu.Unlock()
		verifrt.Assert(len(path.Nodes) == len(path.Edges)+1 && path.Nodes[0].ID == 0, "a delivered path starts at the root")
		for i, edge := range path.Edges {
			verifrt.Assert(edge.StartID == path.Nodes[i].ID && edge.EndID == path.Nodes[i+1].ID, "every edge of a delivered path joins its neighbouring nodes")
		}
		return nil
	})
	verifrt.Schedule(preemptions)
	err := New(db, workers).BreadthFirst(context.Background(), Plan{Root: db.nodes[0], Driver: driver})
	verifrt.Assert(err == nil, "a traversal without failures returns nil")
	for i := 0; i < n; i++ {
		leaf := 2*i+1 >= n
		if leaf && n > 1 {
			verifrt.Assert(delivered[i] == 1, "every leaf is delivered exactly once")
		} else {
			verifrt.Assert(delivered[i] == 0, "no inner node is delivered as a terminal")
		}
	}
}

//go:build verif

package traversal

import (
	"context"
	"sync"

	"github.com/specterops/dawgs/cypher/models/cypher"
	"github.com/specterops/dawgs/graph"
	"github.com/specterops/dawgs/internal/verifrt"
	"github.com/specterops/dawgs/query"
	"github.com/specterops/dawgs/util/size"
)

// A stub database over a fixed edge list for the pattern-expansion driver: the only query it
// answers is "relationships whose start (end) id equals X", which is what
// expansion.PrepareCriteria asks; every other conjunct must be the harness's own marker.
type verifPatternDatabase struct {
	graph.Database
	nodes []*graph.Node
	edges []*graph.Relationship
}

func (s *verifPatternDatabase) ReadTransaction(ctx context.Context, delegate graph.TransactionDelegate, _ ...graph.TransactionOption) error {
	return delegate(&verifPatternTransaction{db: s})
}

type verifPatternTransaction struct {
	graph.Transaction
	db *verifPatternDatabase
}

func (s *verifPatternTransaction) GraphQueryMemoryLimit() size.Size { return 0 }
func (s *verifPatternTransaction) Relationships() graph.RelationshipQuery {
	return &verifPatternQuery{db: s.db}
}

type verifPatternQuery struct {
	graph.RelationshipQuery
	db       *verifPatternDatabase
	criteria graph.Criteria
}

func (s *verifPatternQuery) Filter(criteria graph.Criteria) graph.RelationshipQuery {
	s.criteria = criteria
	return s
}

// verifBoundID finds the conjunct id(<symbol>) = <parameter> of a conjunction; found is
// the number of such conjuncts.
func verifBoundID(criteria graph.Criteria, symbol string) (id graph.ID, found int) {
	conjunction, ok := criteria.(*cypher.Conjunction)
	verifrt.Assert(ok, "the driver filters with a conjunction")
	if !ok {
		return 0, 0
	}
	for _, expression := range conjunction.Expressions {
		comparison, ok := expression.(*cypher.Comparison)
		if !ok || len(comparison.Partials) != 1 {
			continue
		}
		call, ok := comparison.Left.(*cypher.FunctionInvocation)
		if !ok || call.Name != cypher.IdentityFunction || len(call.Arguments) != 1 {
			continue
		}
		variable, ok := call.Arguments[0].(*cypher.Variable)
		if !ok || variable.Symbol != symbol {
			continue
		}
		if parameter, ok := comparison.Partials[0].Right.(*cypher.Parameter); ok {
			if value, ok := parameter.Value.(graph.ID); ok {
				id = value
				found++
			}
		}
	}
	return id, found
}

// verifKindsAdmit: every kind matcher on the relationship among the conjuncts admits kind.
func verifKindsAdmit(criteria graph.Criteria, kind graph.Kind) bool {
	conjunction, ok := criteria.(*cypher.Conjunction)
	if !ok {
		return true
	}
	for _, expression := range conjunction.Expressions {
		matcher, ok := expression.(*cypher.KindMatcher)
		if !ok {
			continue
		}
		if variable, ok := matcher.Reference.(*cypher.Variable); !ok || variable.Symbol != query.EdgeSymbol {
			continue
		}
		if !matcher.Kinds.ContainsOneOf(kind) {
			return false
		}
	}
	return true
}

type verifPatternCursor struct {
	results chan graph.DirectionalResult
}

func (s *verifPatternCursor) Error() error                       { return nil }
func (s *verifPatternCursor) Close()                             {}
func (s *verifPatternCursor) Chan() chan graph.DirectionalResult { return s.results }

func (s *verifPatternQuery) FetchDirection(direction graph.Direction, delegate func(cursor graph.Cursor[graph.DirectionalResult]) error) error {
	startID, startBound := verifBoundID(s.criteria, query.EdgeStartSymbol)
	endID, endBound := verifBoundID(s.criteria, query.EdgeEndSymbol)
	verifrt.Assert(startBound+endBound == 1, "an expansion query binds exactly one end of the relationship, once")
	results := make(chan graph.DirectionalResult, len(s.db.edges))
	for _, edge := range s.db.edges {
		if !verifKindsAdmit(s.criteria, edge.Kind) {
			continue
		}
		if startBound == 1 && edge.StartID == startID {
			results <- graph.NewDirectionalResult(direction, edge, s.db.nodes[int(edge.EndID)])
		}
		if endBound == 1 && edge.EndID == endID {
			results <- graph.NewDirectionalResult(direction, edge, s.db.nodes[int(edge.StartID)])
		}
	}
	close(results)
	return delegate(&verifPatternCursor{results: results})
}

// VerifC17Pattern: a parallel breadth-first traversal driven by the pattern-expansion API
// (NewPattern().Outbound(criteria...).Do) over a tree (node i has the children 2i+1 and
// 2i+2 below n), with `workers` workers under every schedule the bounded scheduler allows.
// The criteria list handed to the pattern has spare capacity (assembled with append), or
// not. Every delivered path is a real root-to-leaf path of the tree, each leaf is delivered
// exactly once, and (race detector) the workers share no unsynchronised memory.
func VerifC17Pattern(n, workers, preemptions int) {
	db := &verifPatternDatabase{}
	for i := 0; i < n; i++ {
		db.nodes = append(db.nodes, graph.NewNode(graph.ID(i), graph.NewProperties()))
	}
	for child := 1; child < n; child++ {
		db.edges = append(db.edges, graph.NewRelationship(graph.ID(100+child), graph.ID((child-1)/2), graph.ID(child), graph.NewProperties(), graph.StringKind("E")))
	}
	var criteria []graph.Criteria
	switch verifrt.NondetChoice("criteria list (0 empty, 1 exact, 2 spare capacity)", 3) {
	case 1:
		criteria = []graph.Criteria{query.KindIn(query.Relationship(), graph.StringKind("E"))}
	case 2:
		criteria = make([]graph.Criteria, 0, 4)
		criteria = append(criteria, query.KindIn(query.Relationship(), graph.StringKind("E")))
	}
	var mu sync.Mutex
	delivered := make([]int, n)
	driver := NewPattern().Outbound(criteria...).Do(func(terminal *graph.PathSegment) error {
		path := terminal.Path()
		mu.Lock()
		delivered[int(terminal.Node.ID)]++
		mu.Unlock()
		verifrt.Assert(len(path.Nodes) == len(path.Edges)+1 && path.Nodes[0].ID == 0, "a delivered path starts at the root")
		for i, edge := range path.Edges {
			verifrt.Assert(edge.StartID == path.Nodes[i].ID && edge.EndID == path.Nodes[i+1].ID, "every edge of a delivered path joins its neighbouring nodes")
		}
		return nil
	})
	verifrt.Schedule(preemptions)
	err := New(db, workers).BreadthFirst(context.Background(), Plan{Root: db.nodes[0], Driver: driver})
	verifrt.Assert(err == nil, "a traversal without failures returns nil")
	for i := 0; i < n; i++ {
		leaf := 2*i+1 >= n
		if leaf && n > 1 {
			verifrt.Assert(delivered[i] == 1, "every leaf is delivered exactly once")
		} else {
			verifrt.Assert(delivered[i] == 0, "no inner node is delivered as a terminal")
		}
	}
}

// VerifC17PatternSeq: a two-step pattern with depth bounds, expanded sequentially from the
// root (the reference the statement compares parallel runs with): Outbound(K1) followed by
// OutboundWithDepth(min, max, K2) over a tree whose root edge has kind K1 and every other
// edge kind K2 (so the split of a path into the two steps is unambiguous). Delivered are
// exactly the root paths with h K2 hops where h >= min and the path cannot be extended
// within the bounds (its end is a leaf, or h == max), each once, each a real path.
func VerifC17PatternSeq() {
	// parent of node i (node 0 is the root, node 1 hangs off it by the K1 edge)
	parents := []int{-1, 0, 1, 2, 3, 1, 5, 2}
	n := len(parents)
	db := &verifPatternDatabase{}
	for i := 0; i < n; i++ {
		db.nodes = append(db.nodes, graph.NewNode(graph.ID(i), graph.NewProperties()))
	}
	k1, k2 := graph.StringKind("K1"), graph.StringKind("K2")
	for child := 1; child < n; child++ {
		kind := k2
		if parents[child] == 0 {
			kind = k1
		}
		db.edges = append(db.edges, graph.NewRelationship(graph.ID(100+child), graph.ID(parents[child]), graph.ID(child), graph.NewProperties(), kind))
	}
	minDepth := 1 + verifrt.NondetChoice("min depth of the second step - 1", 3)
	maxDepth := verifrt.NondetChoice("max depth of the second step (0: unbounded)", 4)
	verifrt.Assume(maxDepth == 0 || maxDepth >= minDepth)
	delivered := make([]int, n)
	driver := NewPattern().Outbound(query.KindIn(query.Relationship(), k1)).OutboundWithDepth(minDepth, maxDepth, query.KindIn(query.Relationship(), k2)).Do(func(terminal *graph.PathSegment) error {
		path := terminal.Path()
		delivered[int(terminal.Node.ID)]++
		verifrt.Assert(len(path.Nodes) == len(path.Edges)+1 && path.Nodes[0].ID == 0, "a delivered path starts at the root")
		for i, edge := range path.Edges {
			verifrt.Assert(edge.StartID == path.Nodes[i].ID && edge.EndID == path.Nodes[i+1].ID, "every edge of a delivered path joins its neighbouring nodes")
		}
		return nil
	})
	tx := &verifPatternTransaction{db: db}
	worklist := []*graph.PathSegment{graph.NewRootPathSegment(db.nodes[0])}
	for steps := 0; len(worklist) > 0; steps++ {
		verifrt.Assert(steps < 64, "sequential expansion of a finite tree ends")
		next := worklist[0]
		worklist = worklist[1:]
		descendants, err := driver(context.Background(), tx, next)
		verifrt.Assert(err == nil, "the driver does not fail")
		worklist = append(worklist, descendants...)
	}
	for i := 1; i < n; i++ {
		// K2 hops from node 1 down to node i (-1: not below node 1)
		hops, at := 0, i
		for at != 1 && at > 0 {
			at = parents[at]
			hops++
		}
		leaf := true
		for c := 1; c < n; c++ {
			if parents[c] == i {
				leaf = false
			}
		}
		want := 0
		within := maxDepth == 0 || hops <= maxDepth
		if at == 1 && hops >= minDepth && within && (leaf || hops == maxDepth) {
			want = 1
		}
		verifrt.Assert(delivered[i] == want, "exactly the maximal paths within the depth bounds are delivered, each once")
	}
	verifrt.Assert(delivered[0] == 0, "the root alone is not delivered")
}

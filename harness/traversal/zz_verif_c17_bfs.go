//go:build verif

package traversal

import (
	"context"
	"errors"
	"sync"

	"github.com/specterops/dawgs/graph"
	"github.com/specterops/dawgs/internal/verifrt"
	"github.com/specterops/dawgs/util/size"
)

type verifBFSDatabase struct {
	graph.Database
}

func (s *verifBFSDatabase) ReadTransaction(ctx context.Context, delegate graph.TransactionDelegate, _ ...graph.TransactionOption) error {
	return delegate(&verifBFSTransaction{})
}

type verifBFSTransaction struct {
	graph.Transaction
}

func (s *verifBFSTransaction) GraphQueryMemoryLimit() size.Size { return 0 }

// VerifC17BreadthFirst: a parallel breadth-first traversal of a small tree (node i has
// the children 2i+1 and 2i+2 below n) with `workers` workers, under every schedule the
// bounded scheduler allows. The driver fails at one node (or nowhere).
//   - BreadthFirst returns (a schedule in which it can never return is a hang);
//   - without a failure every node is expanded exactly once and nil is returned;
//   - with a failure the error is returned and no node is expanded twice.
func VerifC17BreadthFirst(n, workers, preemptions int) {
	failAt := verifrt.NondetChoice("driver fails at node (n = nowhere)", n+1)
	failure := errors.New("driver failed")
	var mu sync.Mutex
	expanded := make([]int, n)
	nodes := make([]*graph.Node, n)
	for i := range nodes {
		nodes[i] = graph.NewNode(graph.ID(i), graph.NewProperties())
	}
	driver := func(ctx context.Context, tx graph.Transaction, segment *graph.PathSegment) ([]*graph.PathSegment, error) {
		index := int(segment.Node.ID)
		mu.Lock()
		expanded[index]++
		mu.Unlock()
		if index == failAt {
			return nil, failure
		}
		var next []*graph.PathSegment
		for _, child := range []int{2*index + 1, 2*index + 2} {
			if child < n {
				next = append(next, segment.Descend(nodes[child], graph.NewRelationship(graph.ID(100+child), graph.ID(index), graph.ID(child), graph.NewProperties(), graph.StringKind("E"))))
			}
		}
		return next, nil
	}
	verifrt.Schedule(preemptions)
	err := New(&verifBFSDatabase{}, workers).BreadthFirst(context.Background(), Plan{Root: nodes[0], Driver: driver})
	for i := range expanded {
		verifrt.Assert(expanded[i] <= 1, "no node is expanded twice")
	}
	if failAt == n {
		verifrt.Assert(err == nil, "a traversal without failures returns nil")
		for i := range expanded {
			verifrt.Assert(expanded[i] == 1, "a traversal without failures expands every node")
		}
	} else {
		verifrt.Assert(err != nil && errors.Is(err, failure), "the first error of a worker is returned")
	}
}

//go:build verif

package traversal

import (
	"sync"

	"github.com/specterops/dawgs/graph"
	"github.com/specterops/dawgs/internal/verifrt"
)

// VerifC17SkipLimitConcurrent: the skip/limit filter shared by all workers of a parallel
// traversal (FilteredSkipLimit) offered k collectable segments by k goroutines, one each,
// under every schedule with the given preemption budget (atomic operations are scheduling
// points): exactly min(max(k-skip, 0), limit or infinity) segments reach the visitor -
// none lost to a double skip, none beyond the limit.
func VerifC17SkipLimitConcurrent(k, preemptions int) {
	skip := verifrt.NondetChoice("skip", 3)
	limit := verifrt.NondetChoice("limit (0: none)", 3)
	var mu sync.Mutex
	visited := 0
	filter := FilteredSkipLimit(func(next *graph.PathSegment) (bool, bool) { return true, true }, func(next *graph.PathSegment) {
		mu.Lock()
		visited++
		mu.Unlock()
	}, skip, limit)
	verifrt.Schedule(preemptions)
	var wg sync.WaitGroup
	for i := 0; i < k; i++ {
		segment := graph.NewRootPathSegment(graph.NewNode(graph.ID(i), graph.NewProperties()))
		wg.Add(1)
		go func() {
			defer wg.Done()
			filter(segment)
		}()
	}
	wg.Wait()
	want := k - skip
	if want < 0 {
		want = 0
	}
	if limit > 0 && want > limit {
		want = limit
	}
	verifrt.Assert(visited == want, "exactly the segments after the skip and within the limit are collected")
}

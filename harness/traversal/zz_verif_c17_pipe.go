//go:build verif

package traversal

import (
	"context"

	"github.com/specterops/dawgs/internal/verifrt"
	"github.com/specterops/dawgs/util/channels"
)

// VerifC17Pipe: a producer writes 0..n-1 into a BufferedPipe and closes it while a consumer
// drains it, under every schedule the bounded scheduler allows. Without cancellation the
// consumer receives exactly 0..n-1 in order; if the context is cancelled after the producer
// has written `cancelAfter` values, it receives a prefix of that sequence (nothing lost in the
// middle, duplicated or reordered) and the reader channel is closed, so it terminates.
func VerifC17Pipe(n, preemptions int) {
	cancelAfter := verifrt.NondetChoice("cancel after this many writes (n+1 = never)", n+2)
	ctx, cancel := context.WithCancel(context.Background())
	defer cancel()
	writer, reader := channels.BufferedPipe[int](ctx)
	verifrt.Schedule(preemptions)
	go func() {
		for i := 0; i < n; i++ {
			if i == cancelAfter {
				cancel()
			}
			if !channels.Submit(ctx, writer, i) {
				return
			}
		}
		if cancelAfter == n {
			cancel()
		}
		close(writer)
	}()
	var got []int
	for value := range reader {
		got = append(got, value)
	}
	for i, value := range got {
		verifrt.Assert(value == i, "values arrive in the order written, none lost in the middle or duplicated")
	}
	verifrt.Assert(len(got) <= n, "no more values arrive than were written")
	if cancelAfter > n {
		verifrt.Assert(len(got) == n, "without cancellation every value written arrives")
	}
}

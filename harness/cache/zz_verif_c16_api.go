//go:build verif

package cache

import "github.com/specterops/dawgs/internal/verifrt"

// VerifC16Hist (API level): an arbitrary history of nops Put/Get/Delete operations with
// symbolic keys and values on a cache of symbolic capacity in [-1,3].
//
// After every operation:
//   - a Get that hits returns the value of the most recent Put of that key that was not
//     deleted since (never another key's value, a superseded or a deleted one);
//   - the number of distinct keys of the history that are present is <= the capacity and
//     equals the size statistic (presence is probed through Get, which is itself a legal
//     continuation of the history).
//
// impl: 0 = SIEVE, 1 = non-expiring map. Which key an eviction removes is not specified.
func VerifC16Hist(impl int, nops int) {
	capacity := verifrt.NondetInt("capacity")
	verifrt.Assume(capacity >= -1)
	verifrt.Assume(capacity <= 3)
	var c Cache[int, int]
	effCap := capacity
	if impl == 0 {
		c = NewSieve[int, int](capacity)
		effCap = verifrt.Ite(capacity <= 0, 1, capacity) // documented: capacity <= 0 behaves as 1
	} else {
		c = NewNonExpiringMapCache[int, int](capacity)
		effCap = verifrt.Ite(capacity <= 0, 0, capacity)
	}
	verifRunHistory(c, effCap, nil, nil, nops)
}

// verifRunHistory runs nops symbolic operations on c, whose current content is exactly the
// bindings preKeys[i] -> preVals[i] (distinct keys), and checks the C16 statement.
func verifRunHistory(c Cache[int, int], effCap int, preKeys, preVals []int, nops int) {
	pre := len(preKeys)
	total := pre + nops
	keys := make([]int, total)
	vals := make([]int, total)
	kinds := make([]int, total)
	copy(keys, preKeys)
	copy(vals, preVals)
	for j := pre; j < total; j++ {
		kinds[j] = verifrt.NondetChoice("op", 3)
		keys[j] = verifrt.NondetInt("k")
		vals[j] = verifrt.NondetInt("v")
		k := keys[j]
		switch kinds[j] {
		case 0:
			c.Put(k, vals[j])
		case 1:
			got, ok := c.Get(k)
			has, cur := verifModel(keys, vals, kinds, j, k)
			verifrt.Assert(verifrt.Implies(ok, verifrt.And(has, got == cur)), "Get hit returns the value of the latest not-deleted Put of that key")
		case 2:
			c.Delete(k)
			_, ok := c.Get(k)
			verifrt.Assert(!ok, "Get after Delete of the same key misses")
		}
	}
	// bounded + size statistic: count distinct history keys that are present
	present := 0
	for i := 0; i < total; i++ {
		got, ok := c.Get(keys[i])
		has, cur := verifModel(keys, vals, kinds, total, keys[i])
		verifrt.Assert(verifrt.Implies(ok, verifrt.And(has, got == cur)), "final probe: hit returns the value of the latest not-deleted Put")
		first := true
		for p := 0; p < i; p++ {
			first = verifrt.And(first, keys[p] != keys[i])
		}
		present += verifrt.B2I(verifrt.And(ok, first))
	}
	verifrt.Assert(present <= effCap, "number of stored entries never exceeds the capacity")
	verifrt.Assert(int(c.Stats().Size()) == present, "size statistic equals the number of stored entries")
}

// verifModel: (has, value) of key k after the first n operations of the history, fork free.
func verifModel(keys, vals, kinds []int, n int, k int) (bool, int) {
	has, cur := false, 0
	for i := 0; i < n; i++ {
		isK := keys[i] == k
		switch kinds[i] {
		case 0:
			has = verifrt.Or(has, isK)
			cur = verifrt.Ite(isK, vals[i], cur)
		case 2:
			has = verifrt.And(has, verifrt.Not(isK))
		}
	}
	return has, cur
}

// VerifC16HistWitness: vacuity twin.
func VerifC16HistWitness() {
	c := NewSieve[int, int](2)
	c.Put(verifrt.NondetInt("k"), 1)
	c.Put(verifrt.NondetInt("k"), 2)
	c.Put(verifrt.NondetInt("k"), 3)
	verifrt.Assert(false, "witness: end of harness reached")
}

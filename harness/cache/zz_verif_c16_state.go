//go:build verif

package cache

import (
	"container/list"

	"github.com/specterops/dawgs/internal/verifrt"
)

// verifArbitrarySieve builds, directly in the representation, an arbitrary SIEVE state
// satisfying the representation invariant (DESIGN G.3): n <= capacity pairwise distinct
// keys in the queue, store in bijection with it with correct back pointers, arbitrary
// visited bits, hand nil or any element, size statistic = n. All such states are reachable
// through the API (Put fills, Get sets visited bits, evictions and Deletes move the hand).
func verifArbitrarySieve(guarded bool) (*Sieve[int, int], []int, []int, int) {
	n := verifrt.NondetChoice("entries", 4)
	capacity := verifrt.NondetInt("capacity")
	verifrt.Assume(capacity >= 1)
	verifrt.Assume(capacity <= 3)
	verifrt.Assume(capacity >= n)
	s := NewSieve[int, int](capacity).(*Sieve[int, int])
	keys := make([]int, n)
	vals := make([]int, n)
	elems := make([]*list.Element, n)
	for i := 0; i < n; i++ {
		keys[i] = verifrt.NondetInt("key")
		vals[i] = verifrt.NondetInt("val")
		for p := 0; p < i; p++ {
			verifrt.Assume(keys[p] != keys[i])
		}
		e := &entry[int, int]{key: keys[i], value: vals[i], element: s.queue.PushBack(keys[i])}
		e.visited.Store(verifrt.NondetBool("visited"))
		s.store[keys[i]] = e
		s.stats.Put()
		elems[i] = e.element
	}
	if h := verifrt.NondetChoice("hand", n+1); h < n {
		s.hand = elems[h]
	}
	if guarded {
		verifrt.Guard(&s.store, &s.rwLock, 0, "Sieve.store")
		verifrt.Guard(&s.queue, &s.rwLock, 0, "Sieve.queue")
		verifrt.Guard(&s.hand, &s.rwLock, 0, "Sieve.hand")
	}
	return s, keys, vals, capacity
}

// VerifC16SieveStep (state level, inductive in the pre-state): from an arbitrary valid
// SIEVE state, m further symbolic operations satisfy the C16 statement (coherent lookups,
// bounded, size statistic exact, no panic, no self-deadlock).
func VerifC16SieveStep(m int) {
	s, keys, vals, capacity := verifArbitrarySieve(false)
	verifRunHistory(s, capacity, keys, vals, m)
}

// VerifC16SieveLock: as the step harness, with the lockset monitor armed on store, queue
// and hand: every access must happen while rwLock is held (writes: exclusively).
func VerifC16SieveLock(m int) {
	s, keys, vals, capacity := verifArbitrarySieve(true)
	verifRunHistory(s, capacity, keys, vals, m)
	verifrt.Assert(verifrt.Held(&s.rwLock) == 0, "rwLock released after every operation")
}

func verifArbitraryNemap(guarded bool) (*NonExpiringMapCache[int, int], []int, []int, int) {
	n := verifrt.NondetChoice("entries", 4)
	capacity := verifrt.NondetInt("capacity")
	verifrt.Assume(capacity >= 0)
	verifrt.Assume(capacity <= 3)
	verifrt.Assume(capacity >= n)
	s := NewNonExpiringMapCache[int, int](capacity).(*NonExpiringMapCache[int, int])
	keys := make([]int, n)
	vals := make([]int, n)
	for i := 0; i < n; i++ {
		keys[i] = verifrt.NondetInt("key")
		vals[i] = verifrt.NondetInt("val")
		for p := 0; p < i; p++ {
			verifrt.Assume(keys[p] != keys[i])
		}
		s.store[keys[i]] = vals[i]
		s.stats.Put()
	}
	if guarded {
		verifrt.Guard(&s.store, &s.rwLock, 0, "NonExpiringMapCache.store")
	}
	return s, keys, vals, capacity
}

func VerifC16NemapStep(m int) {
	s, keys, vals, capacity := verifArbitraryNemap(false)
	verifRunHistory(s, capacity, keys, vals, m)
}

func VerifC16NemapLock(m int) {
	s, keys, vals, capacity := verifArbitraryNemap(true)
	verifRunHistory(s, capacity, keys, vals, m)
	verifrt.Assert(verifrt.Held(&s.rwLock) == 0, "rwLock released after every operation")
}

//go:build verif

package cache

import (
	"sync"

	"github.com/specterops/dawgs/internal/verifrt"
)

type verifConcOp struct {
	kind int // 0 Put, 1 Get, 2 Delete
	key  int
	val  int
	got  int
	hit  bool
}

func verifNewCache(impl, capacity int, prefill bool) Cache[int, int] {
	var c Cache[int, int]
	if impl == 0 {
		c = NewSieve[int, int](capacity)
	} else {
		c = NewNonExpiringMapCache[int, int](capacity)
	}
	if prefill {
		c.Put(10, 100)
	}
	return c
}

func verifApply(c Cache[int, int], op *verifConcOp) {
	switch op.kind {
	case 0:
		c.Put(op.key, op.val)
	case 1:
		op.got, op.hit = c.Get(op.key)
	default:
		c.Delete(op.key)
	}
}

// verifObserve: what Get returns for every key of the universe, and the size statistic.
func verifObserve(c Cache[int, int]) [7]int {
	var out [7]int
	for i, key := range []int{10, 1, 2} {
		got, hit := c.Get(key)
		if hit {
			out[2*i], out[2*i+1] = 1, got
		}
	}
	out[6] = int(c.Stats().Size())
	return out
}

// VerifC16Concurrent: two goroutines each perform one operation on a shared cache (SIEVE:
// impl 0, non-expiring map: impl 1), under every schedule with up to `preemptions`
// preemptions. Afterwards: the number of stored entries is within the capacity and equals
// the size statistic; the observable content and the results returned equal those of one of
// the two sequential orders of the operations; and three further sequential Puts neither
// panic nor break the bounds.
func VerifC16Concurrent(impl, preemptions int) {
	capacity := 1 + verifrt.NondetChoice("capacity", 2)
	prefill := verifrt.NondetChoice("prefilled", 2) == 1
	a := verifConcOp{kind: 0, key: 1 + verifrt.NondetChoice("key a", 2), val: 1}
	b := verifConcOp{kind: verifrt.NondetChoice("operation b", 3), key: 1 + verifrt.NondetChoice("key b", 2), val: 2}

	// sequential reference runs
	ab, ba := verifNewCache(impl, capacity, prefill), verifNewCache(impl, capacity, prefill)
	a1, b1, a2, b2 := a, b, a, b
	verifApply(ab, &a1)
	verifApply(ab, &b1)
	verifApply(ba, &b2)
	verifApply(ba, &a2)
	wantAB, wantBA := verifObserve(ab), verifObserve(ba)

	c := verifNewCache(impl, capacity, prefill)
	verifrt.Schedule(preemptions)
	var wg sync.WaitGroup
	wg.Add(2)
	go func() {
		defer wg.Done()
		verifApply(c, &a)
	}()
	go func() {
		defer wg.Done()
		verifApply(c, &b)
	}()
	wg.Wait()

	got := verifObserve(c)
	present := got[0] + got[2] + got[4]
	effCap := capacity
	verifrt.Assert(present <= effCap, "a cache never holds more entries than its capacity")
	verifrt.Assert(got[6] == present, "the size statistic equals the number of stored entries")
	sameAB := got == wantAB && b.hit == b1.hit && (!b.hit || b.got == b1.got)
	sameBA := got == wantBA && b.hit == b2.hit && (!b.hit || b.got == b2.got)
	verifrt.Assert(sameAB || sameBA, "concurrent operations are consistent with one of their sequential orders")

	for _, key := range []int{20, 21, 22} {
		c.Put(key, key)
		count := 0
		for _, probe := range []int{10, 1, 2, 20, 21, 22} {
			if _, hit := c.Get(probe); hit {
				count++
			}
		}
		verifrt.Assert(count <= effCap && int(c.Stats().Size()) == count, "later operations keep the cache bounded and its size statistic exact")
	}
}

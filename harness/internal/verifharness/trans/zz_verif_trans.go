//go:build verif

// Package trans holds the API-level harnesses for the Cypher -> PostgreSQL translator
// (C04, C05, C06). It exists only in the verification overlay.
package trans

import (
	"context"

	"github.com/specterops/dawgs/cypher/frontend"
	"github.com/specterops/dawgs/cypher/models/cypher"
	"github.com/specterops/dawgs/cypher/models/pgsql"
	"github.com/specterops/dawgs/cypher/models/pgsql/translate"
	"github.com/specterops/dawgs/drivers/pg/pgutil"
	"github.com/specterops/dawgs/graph"
	"github.com/specterops/dawgs/internal/verifrt"
)

// verifNativeParse parses a concrete template with the real front end and replaces marker
// substrings in the model by the given strings. Under the symbolic executor it is a native
// call-out (ANTLR runs natively, the model is lifted into the engine heap and the
// replacements may be symbolic); natively this body runs.
func verifNativeParse(text string, subst map[string]string) (*cypher.RegularQuery, error) {
	q, err := frontend.ParseCypher(frontend.NewContext(), text)
	if err != nil {
		return nil, err
	}
	verifrt.ReplaceStrings(q, subst)
	return q, nil
}

func verifKindMapper() pgsql.KindMapper {
	m := pgutil.NewInMemoryKindMapper()
	for _, k := range []string{"NodeKind1", "NodeKind2", "EdgeKind1", "EdgeKind2", "Computer", "User", "HasSession", "GPO", "OU", "Base", "GPLink", "Contains", "Group",
		"AddAllowedToAct", "AddMember", "AdminTo", "AllExtendedRights", "AllowedToDelegate", "CanRDP", "ForceChangePassword", "GenericAll", "GenericWrite",
		"GetChangesAll", "GetChanges", "MemberOf", "Owns", "ReadLAPSPassword", "SQLAdmin", "TrustedBy", "WriteAccountRestrictions", "WriteOwner", "AZUser"} {
		m.Put(graph.StringKind(k))
	}
	return m
}

// verifTranslate runs optimiser + translator + formatter.
func verifTranslate(q *cypher.RegularQuery, params map[string]any) (string, map[string]any, error) {
	res, err := translate.Translate(context.Background(), q, verifKindMapper(), params, 1)
	if err != nil {
		return "", nil, err
	}
	sql, err := translate.Translated(res)
	return sql, res.Parameters, err
}

var verifSmokeTemplates = []string{
	"match (n) where n.name = 'abc' return n",
	"match (n:User)-[r:MemberOf*1..3]->(g:Group) where g.name = 'x' return n, g",
	"match p = (a)-[*..]->(b) where a.name starts with 'q' return p limit 3",
	"match (n) where n.name = $p return n.name as nm order by nm skip 1 limit 2",
}

// VerifTransSmoke: every smoke template translates without panicking.
func VerifTransSmoke(i int) {
	q, err := verifNativeParse(verifSmokeTemplates[i], nil)
	verifrt.Assert(err == nil, "template parses")
	sql, _, err := verifTranslate(q, map[string]any{"p": "v"})
	if err != nil {
		verifrt.Observe("error", err.Error())
	} else {
		verifrt.Observe(sql)
	}
	verifrt.Assert(err != nil || len(sql) > 0, "translation yields SQL or an error")
}

//go:build verif

package trans

import (
	"context"

	"github.com/specterops/dawgs/cypher/models/cypher"
	"github.com/specterops/dawgs/cypher/models/pgsql/translate"
	"github.com/specterops/dawgs/internal/verifrt"
)

const verifMarker = "ZZQMARK"

// templates with the marker in a string-literal position
var verifLitShapes = []string{
	"match (n) where n.name = 'ZZQMARK' return n",
	"match (n) where n.name in ['a', 'ZZQMARK'] return n",
	"match (n {name: 'ZZQMARK'}) return n",
	"match (n) where n.name starts with 'ZZQMARK' return n",
	"match (n) where n.name contains 'ZZQMARK' return n.name",
	"match (n)-[r:MemberOf*1..2]->(m) where m.name = 'ZZQMARK' return n",
	"match (n) where n.name = 'a' return 'ZZQMARK' as x",
	"match (n) where not n.name = 'ZZQMARK' with n match (n)-[:MemberOf]->(g) return g",
	"match p = shortestPath((a)-[:MemberOf*1..]->(b)) where a.name = 'ZZQMARK' and b.name = 'k' return p",
	"match (n) where n.name ends with 'ZZQMARK' or n.name =~ 'ZZQMARK' return n",
}

// templates with the marker in a back-ticked name position (property key, map key)
var verifKeyShapes = []string{
	"match (n) where n.`ZZQMARK` = 1 return n",
	"match (n {`ZZQMARK`: 1}) return n",
	"match (n) return n.`ZZQMARK`",
	"match (n)-[r:MemberOf*1..2]->(m) where m.`ZZQMARK` = 'v' return n",
	"match (n) where n.name = 'x' set n.`ZZQMARK` = 1 return n",
	"match (n) where n.name = 'x' remove n.`ZZQMARK` return n",
	"match (n)-[r]->(m) where n.name = 'x' set r.`ZZQMARK` = 'v', m.other = 2 return r",
}

// templates with the marker as a result alias / variable name / kind name
var verifNameShapes = []string{
	"match (n) return n.name as `ZZQMARK`",
	"match (`ZZQMARK`) return `ZZQMARK`",
	"match (n:`ZZQMARK`) return n",
	"match (n) with n.name as `ZZQMARK` return `ZZQMARK`",
}

func verifHex(c byte) bool {
	return (c >= '0' && c <= '9') || (c >= 'a' && c <= 'f') || (c >= 'A' && c <= 'F')
}

// verifCypherBody: is raw a body the Cypher lexer accepts inside '...', and which value
// does it denote (openCypher escapes)? unicode reports a \u or \U escape (the value is then
// not computed: the translator must reject or decode it, never pass it through).
func verifCypherBody(raw string) (valid bool, value string, unicode bool) {
	var out []byte
	for i := 0; i < len(raw); i++ {
		c := raw[i]
		if c == '\'' || c == 0 {
			return false, "", false
		}
		if c != '\\' {
			out = append(out, c)
			continue
		}
		if i+1 >= len(raw) {
			return false, "", false
		}
		i++
		switch e := raw[i]; e {
		case '\\', '\'', '"':
			out = append(out, e)
		case 'b', 'B':
			out = append(out, '\b')
		case 'f', 'F':
			out = append(out, '\f')
		case 'n', 'N':
			out = append(out, '\n')
		case 'r', 'R':
			out = append(out, '\r')
		case 't', 'T':
			out = append(out, '\t')
		case 'u', 'U':
			n := 4
			if e == 'U' {
				n = 8
			}
			if i+n >= len(raw) {
				return false, "", false
			}
			for k := 1; k <= n; k++ {
				if !verifHex(raw[i+k]) {
					return false, "", false
				}
			}
			i += n
			unicode = true
		default:
			return false, "", false
		}
	}
	return true, string(out), unicode
}

// verifSameStructure: the SQL for the user text has the token structure of the SQL for the
// benign text; every token that differs is one string literal (or quoted identifier) whose
// un-doubled content is the denoted user value (optionally with the % wild cards the
// translator adds for starts with / ends with / contains).
func verifSameStructure(userSQL, benignSQL, userValue, benignValue, where string) bool {
	ut, bt := verifLexSQL(userSQL), verifLexSQL(benignSQL)
	verifrt.Assert(len(ut) == len(bt), where+": SQL token count is the same as for a benign value")
	if len(ut) != len(bt) {
		return false
	}
	carried := false
	for i := range ut {
		u, b := ut[i], bt[i]
		utext, btext := userSQL[u.start:u.end], benignSQL[b.start:b.end]
		verifrt.Assert(u.kind != 'E', where+": SQL lexes without error")
		if b.kind == 'w' && btext == benignValue {
			// the benign name is a bare identifier; the user name may be bare (if it is one) or quoted
			carried = true
			if u.kind == 'q' {
				verifrt.Assert(verifUnquoteSQL(utext) == userValue, where+": the quoted identifier PostgreSQL reads back is the user's name")
			} else {
				verifrt.Assert(u.kind == 'w' && utext == userValue, where+": the user's name is one identifier token")
			}
			continue
		}
		verifrt.Assert(u.kind == b.kind, where+": SQL token kinds are the same as for a benign value")
		if b.kind == 's' || b.kind == 'q' {
			bval := verifUnquoteSQL(btext)
			if bval == benignValue {
				carried = true
				verifrt.Assert(verifUnquoteSQL(utext) == userValue, where+": the literal PostgreSQL reads back is the value the Cypher text denoted")
				continue
			}
			// LIKE pattern built by starts with / ends with / contains: optional % wild cards
			// around the value, in which \, % and _ are escaped with a backslash
			if pre, post, hit := verifLikeAffixes(bval, benignValue); hit {
				carried = true
				uval := verifUnquoteSQL(utext)
				ok := len(uval) >= len(pre)+len(post) && uval[:len(pre)] == pre && uval[len(uval)-len(post):] == post
				verifrt.Assert(ok, where+": the LIKE pattern keeps its wild cards")
				if ok {
					verifrt.Assert(verifLikeUnescape(uval[len(pre):len(uval)-len(post)]) == userValue, where+": the LIKE pattern PostgreSQL reads back matches exactly the value the Cypher text denoted")
				}
				continue
			}
			// a SQL fragment passed as text to a server-side traversal function: the same
			// requirements hold inside it
			if utext != btext && verifLooksLikeSQL(bval) && len(where) < 60 {
				if verifSameStructure(verifUnquoteSQL(utext), bval, userValue, benignValue, where+" > nested fragment") {
					carried = true
				}
				continue
			}
		}
		verifrt.Assert(utext == btext, where+": SQL outside the user value is unchanged")
	}
	return carried
}

func verifLooksLikeSQL(s string) bool {
	for _, p := range []string{"select ", "insert ", "with ", "delete ", "update "} {
		if len(s) > len(p) && s[:len(p)] == p {
			return true
		}
	}
	return false
}

func verifLikeAffixes(bval, benign string) (string, string, bool) {
	for _, w := range [][2]string{{"", "%"}, {"%", ""}, {"%", "%"}} {
		if bval == w[0]+benign+w[1] {
			return w[0], w[1], true
		}
	}
	return "", "", false
}

// verifLikeUnescape: the literal a LIKE pattern body matches; an unescaped wild card or a
// dangling backslash yields a string that cannot equal any user value (a 0 byte is added).
func verifLikeUnescape(p string) string {
	var out []byte
	for i := 0; i < len(p); i++ {
		c := p[i]
		if c == '\\' {
			if i+1 >= len(p) {
				return string(append(out, 0))
			}
			i++
			out = append(out, p[i])
			continue
		}
		if c == '%' || c == '_' {
			return string(append(out, 0))
		}
		out = append(out, c)
	}
	return string(out)
}

// verifCheckOutputs compares SQL text and every SQL fragment the translator passes as a
// parameter (the pi<N> traversal harness fragments).
func verifCheckOutputs(sql string, params map[string]any, bsql string, bparams map[string]any, userValue, benignValue string) {
	carried := verifSameStructure(sql, bsql, userValue, benignValue, "statement")
	verifrt.Assert(len(params) == len(bparams), "same parameter set as for a benign value")
	for k, bv := range bparams {
		v, ok := params[k]
		verifrt.Assert(ok, "same parameter names as for a benign value")
		bs, isStr := bv.(string)
		if !isStr {
			continue
		}
		s, _ := v.(string)
		if verifLooksLikeSQL(bs) {
			if verifSameStructure(s, bs, userValue, benignValue, "SQL fragment parameter "+k) {
				carried = true
			}
		}
	}
	verifrt.Assert(carried, "the user value is carried by a string literal or quoted identifier")
}

const verifBenign = "qx"

// VerifC04Lit: n symbolic raw bytes inside a Cypher string literal of the given shape.
func VerifC04Lit(shape, n int) {
	raw := verifrt.NondetString("literal body", n)
	valid, value, unicode := verifCypherBody(raw)
	verifrt.Assume(valid)
	q, err := verifNativeParse(verifLitShapes[shape], map[string]string{verifMarker: raw})
	verifrt.Assert(err == nil, "template parses")
	sql, params, err := verifTranslate(q, nil)
	if err != nil {
		verifrt.Observe("rejected", err.Error())
		return // rejecting a literal is safe
	}
	verifrt.Observe(sql)
	verifrt.Assert(!unicode, "a \\u escape is rejected or decoded, never passed through")
	bq, _ := verifNativeParse(verifLitShapes[shape], map[string]string{verifMarker: verifBenign})
	bsql, bparams, berr := verifTranslate(bq, nil)
	verifrt.Assert(berr == nil, "benign literal translates")
	verifCheckOutputs(sql, params, bsql, bparams, value, verifBenign)
}

// VerifC04Key: n symbolic bytes as a back-ticked property / map key.
func VerifC04Key(shape, n int) {
	key := verifrt.NondetString("key", n)
	for i := 0; i < len(key); i++ {
		verifrt.Assume(key[i] != 0)
	}
	q, err := verifNativeParse(verifKeyShapes[shape], map[string]string{verifMarker: key})
	verifrt.Assert(err == nil, "template parses")
	sql, params, err := verifTranslate(q, nil)
	if err != nil {
		return
	}
	bq, _ := verifNativeParse(verifKeyShapes[shape], map[string]string{verifMarker: verifBenign})
	bsql, bparams, berr := verifTranslate(bq, nil)
	verifrt.Assert(berr == nil, "benign key translates")
	verifCheckOutputs(sql, params, bsql, bparams, key, verifBenign)
}

// VerifC04Name: n symbolic bytes as alias / variable / kind name.
func VerifC04Name(shape, n int) {
	raw := verifrt.NondetString("name", n)
	// the bytes stand between the back-tick delimiters of an escaped symbolic name: a
	// back-tick inside must be doubled, and the name denoted has them collapsed
	var nameBytes []byte
	for i := 0; i < len(raw); i++ {
		verifrt.Assume(raw[i] != 0)
		if raw[i] == '`' {
			verifrt.Assume(i+1 < len(raw) && raw[i+1] == '`')
			i++
		}
		nameBytes = append(nameBytes, raw[i])
	}
	name := string(nameBytes)
	q, err := verifNativeParse(verifNameShapes[shape], map[string]string{verifMarker: raw})
	verifrt.Assert(err == nil, "template parses")
	sql, params, err := verifTranslate(q, nil)
	if err != nil {
		return
	}
	bq, _ := verifNativeParse(verifNameShapes[shape], map[string]string{verifMarker: verifBenign})
	bsql, bparams, berr := verifTranslate(bq, nil)
	verifrt.Assert(berr == nil, "benign name translates")
	verifCheckOutputs(sql, params, bsql, bparams, name, verifBenign)
}

var verifParamShapes = []string{
	"match (n) where n.name = $p return n",
	"match (n) where n.name in $p return n",
	"match sp = shortestPath((a)-[:MemberOf*1..]->(b)) where a.name = $p and b.name = 'k' return sp",
}

// VerifC04Param: a supplied parameter value with n symbolic bytes: it must stay a bound
// parameter (same SQL as for a benign value, the value passed through unchanged) or be
// inlined as one correctly quoted literal.
func VerifC04Param(shape, n int) {
	val := verifrt.NondetString("parameter value", n)
	var pv, bv any = val, verifBenign
	if shape == 1 {
		pv, bv = []string{"a", val}, []string{"a", verifBenign}
	}
	q, err := verifNativeParse(verifParamShapes[shape], nil)
	verifrt.Assert(err == nil, "template parses")
	sql, params, err := verifTranslate(q, map[string]any{"p": pv})
	if err != nil {
		return
	}
	bq, _ := verifNativeParse(verifParamShapes[shape], nil)
	bsql, bparams, berr := verifTranslate(bq, map[string]any{"p": bv})
	verifrt.Assert(berr == nil, "benign parameter translates")
	if sql == bsql {
		// bound: the value must reach the parameter map unchanged
		verifrt.Assert(len(params) == len(bparams), "same parameter set as for a benign value")
		for k, b := range bparams {
			v := params[k]
			if bs, ok := b.(string); ok {
				s, _ := v.(string)
				if bs == verifBenign {
					verifrt.Assert(s == val, "bound string parameter is passed through unchanged")
				} else if verifLooksLikeSQL(bs) {
					verifSameStructure(s, bs, val, verifBenign, "SQL fragment parameter "+k)
				}
			}
			if bl, ok := b.([]string); ok {
				l, _ := v.([]string)
				verifrt.Assert(len(l) == len(bl) && l[len(l)-1] == val, "bound list parameter is passed through unchanged")
			}
		}
		return
	}
	verifCheckOutputs(sql, params, bsql, bparams, val, verifBenign)
}

// VerifC04Witness: vacuity twin - some literal is accepted and reaches the oracle.
func VerifC04Witness() {
	raw := verifrt.NondetString("literal body", 2)
	valid, _, _ := verifCypherBody(raw)
	verifrt.Assume(valid)
	q, _ := verifNativeParse(verifLitShapes[0], map[string]string{verifMarker: raw})
	_, _, err := verifTranslate(q, nil)
	if err == nil {
		verifrt.Assert(false, "witness: a two byte literal is translated")
	}
}

// VerifC04Sent: the statement the PostgreSQL driver actually sends is the one
// translate.FromCypher builds (drivers/pg/query.go): the Cypher text as a leading SQL
// comment, then the translated SQL. With n symbolic raw bytes in a string literal the
// comment must stay a comment: outside comment tokens the statement lexes exactly like
// translate.Translated's text (which the other C04 harnesses examine), and the parameters
// are the same.
func VerifC04Sent(shape, n int) {
	var q *cypher.RegularQuery
	var err error
	if shape < len(verifLitShapes) {
		raw := verifrt.NondetString("literal body", n)
		valid, _, _ := verifCypherBody(raw)
		verifrt.Assume(valid)
		q, err = verifNativeParse(verifLitShapes[shape], map[string]string{verifMarker: raw})
	} else if shape >= 20 {
		// a back-ticked alias / variable / kind name (shape - 20 of verifNameShapes)
		raw := verifrt.NondetString("name", n)
		for i := 0; i < len(raw); i++ {
			verifrt.Assume(raw[i] != 0)
			if raw[i] == '`' {
				verifrt.Assume(i+1 < len(raw) && raw[i+1] == '`')
				i++
			}
		}
		q, err = verifNativeParse(verifNameShapes[shape-20], map[string]string{verifMarker: raw})
	} else {
		// a back-ticked property key instead (shape - len(verifLitShapes) of verifKeyShapes)
		key := verifrt.NondetString("key", n)
		for i := 0; i < len(key); i++ {
			verifrt.Assume(key[i] != 0)
		}
		q, err = verifNativeParse(verifKeyShapes[shape-len(verifLitShapes)], map[string]string{verifMarker: key})
	}
	verifrt.Assert(err == nil, "template parses")
	sql, params, err := verifTranslate(q, nil)
	if err != nil {
		return
	}
	sent, err := translate.FromCypher(context.Background(), q, verifKindMapper(), false, 1)
	if err != nil {
		return // refusing to send is safe
	}
	verifrt.Observe(sent.Statement)
	st, tt := verifLexSQL(sent.Statement), verifLexSQL(sql)
	k := 0
	for _, tok := range st {
		verifrt.Assert(tok.kind != 'E', "the sent statement lexes without error")
		if tok.kind == 'c' {
			continue
		}
		verifrt.Assert(k < len(tt), "outside its comment the sent statement has no token the translation does not have")
		if k < len(tt) {
			verifrt.Assert(tok.kind == tt[k].kind && sent.Statement[tok.start:tok.end] == sql[tt[k].start:tt[k].end], "outside its comment the sent statement is the translated SQL")
		}
		k++
	}
	verifrt.Assert(k == len(tt), "the sent statement carries the whole translated SQL")
	verifrt.Assert(len(sent.Parameters) == len(params), "the sent parameters are the translation's")
}

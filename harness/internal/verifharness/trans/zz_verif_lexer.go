//go:build verif

package trans

// A PostgreSQL lexer for the dialect DAWGS emits (DESIGN G.9), used as the oracle of C04 and
// C06. standard_conforming_strings = on: no backslash escapes in '...' literals.

type verifToken struct {
	kind       byte // w word, q quoted identifier, s string, n number, p parameter, o operator, c comment, d dollar string, E error, or the punctuation byte itself
	start, end int  // [start,end) in the text
}

func verifIsWordStart(c byte) bool {
	return (c >= 'a' && c <= 'z') || (c >= 'A' && c <= 'Z') || c == '_' || c >= 0x80
}

func verifIsWordPart(c byte) bool {
	return verifIsWordStart(c) || (c >= '0' && c <= '9') || c == '$'
}

func verifIsSpace(c byte) bool {
	return c == ' ' || c == '\t' || c == '\n' || c == '\r' || c == '\f' || c == '\v'
}

func verifIsOp(c byte) bool {
	switch c {
	case '+', '-', '*', '/', '<', '>', '=', '~', '!', '#', '%', '^', '&', '|', '`', '?':
		return true
	}
	return false
}

// verifLexSQL tokenises s. Symbolic bytes fork the lexer on their class, so the token
// structure is decided for every value of those bytes.
func verifLexSQL(s string) []verifToken {
	var out []verifToken
	i := 0
	for i < len(s) {
		c := s[i]
		switch {
		case verifIsSpace(c):
			i++
		case c == '\'':
			j := i + 1
			closed := false
			for j < len(s) {
				if s[j] == '\'' {
					if j+1 < len(s) && s[j+1] == '\'' {
						j += 2
						continue
					}
					closed = true
					j++
					break
				}
				j++
			}
			k := byte('s')
			if !closed {
				k = 'E'
			}
			out = append(out, verifToken{k, i, j})
			i = j
		case c == '"':
			j := i + 1
			closed := false
			for j < len(s) {
				if s[j] == '"' {
					if j+1 < len(s) && s[j+1] == '"' {
						j += 2
						continue
					}
					closed = true
					j++
					break
				}
				j++
			}
			k := byte('q')
			if !closed {
				k = 'E'
			}
			out = append(out, verifToken{k, i, j})
			i = j
		case c == '-' && i+1 < len(s) && s[i+1] == '-':
			j := i + 2
			for j < len(s) && s[j] != '\n' && s[j] != '\r' {
				j++
			}
			out = append(out, verifToken{'c', i, j})
			i = j
		case c == '/' && i+1 < len(s) && s[i+1] == '*':
			depth, j := 1, i+2
			for j < len(s) && depth > 0 {
				if s[j] == '*' && j+1 < len(s) && s[j+1] == '/' {
					depth--
					j += 2
				} else if s[j] == '/' && j+1 < len(s) && s[j+1] == '*' {
					depth++
					j += 2
				} else {
					j++
				}
			}
			k := byte('c')
			if depth > 0 {
				k = 'E'
			}
			out = append(out, verifToken{k, i, j})
			i = j
		case c == '$':
			// $tag$ ... $tag$, or $1 positional parameter
			j := i + 1
			if j < len(s) && s[j] >= '0' && s[j] <= '9' {
				for j < len(s) && s[j] >= '0' && s[j] <= '9' {
					j++
				}
				out = append(out, verifToken{'p', i, j})
				i = j
				break
			}
			for j < len(s) && verifIsWordPart(s[j]) && s[j] != '$' {
				j++
			}
			if j < len(s) && s[j] == '$' {
				tag := s[i : j+1]
				k := j + 1
				closed := false
				for k+len(tag) <= len(s) {
					if s[k:k+len(tag)] == tag {
						closed = true
						k += len(tag)
						break
					}
					k++
				}
				kind := byte('d')
				if !closed {
					kind = 'E'
					k = len(s)
				}
				out = append(out, verifToken{kind, i, k})
				i = k
			} else {
				out = append(out, verifToken{'E', i, j})
				i = j
			}
		case c == '@' && i+1 < len(s) && verifIsWordStart(s[i+1]):
			j := i + 1
			for j < len(s) && verifIsWordPart(s[j]) {
				j++
			}
			out = append(out, verifToken{'p', i, j})
			i = j
		case verifIsWordStart(c):
			j := i + 1
			for j < len(s) && verifIsWordPart(s[j]) {
				j++
			}
			kind := byte('w')
			// e'..', b'..', x'..', n'..', u&'..' change how the following literal is decoded
			if j < len(s) && s[j] == '\'' && j-i == 1 {
				switch c {
				case 'e', 'E', 'b', 'B', 'x', 'X', 'n', 'N':
					kind = 'E'
				}
			}
			if j+1 < len(s) && s[j] == '&' && s[j+1] == '\'' && j-i == 1 && (c == 'u' || c == 'U') {
				kind = 'E'
			}
			out = append(out, verifToken{kind, i, j})
			i = j
		case c >= '0' && c <= '9':
			j := i + 1
			for j < len(s) && ((s[j] >= '0' && s[j] <= '9') || s[j] == '.') {
				j++
			}
			out = append(out, verifToken{'n', i, j})
			i = j
		case verifIsOp(c) || c == '@':
			j := i + 1
			for j < len(s) && (verifIsOp(s[j]) || s[j] == '@') {
				// a comment opener ends the operator
				if (s[j] == '-' && j+1 < len(s) && s[j+1] == '-') || (s[j] == '/' && j+1 < len(s) && s[j+1] == '*') {
					break
				}
				j++
			}
			out = append(out, verifToken{'o', i, j})
			i = j
		default:
			// punctuation and anything else: a one byte token of its own kind
			kind := c
			switch c {
			case '(', ')', '[', ']', ',', ';', ':', '.', '{', '}':
			default:
				kind = 'E'
			}
			out = append(out, verifToken{kind, i, i + 1})
			i++
		}
	}
	return out
}

// verifUnquoteSQL undoes the quote doubling of a '...' or "..." token text.
func verifUnquoteSQL(tok string) string {
	q := tok[0]
	body := tok[1 : len(tok)-1]
	out := make([]byte, 0, len(body))
	for i := 0; i < len(body); i++ {
		out = append(out, body[i])
		if body[i] == q && i+1 < len(body) && body[i+1] == q {
			i++
		}
	}
	return string(out)
}

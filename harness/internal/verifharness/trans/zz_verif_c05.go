//go:build verif

package trans

import (
	"context"
	"fmt"
	"github.com/specterops/dawgs/cypher/models/pgsql/translate"

	"github.com/specterops/dawgs/internal/verifrt"
)

var verifC05Templates = []string{
	"match (n) where n.name = 'abc' return n",
	"match (n:User)-[r:MemberOf*1..3]->(g:Group) where g.name = 'x' return n, g",
	"match p = (a)-[*..]->(b) where a.name starts with 'q' return p limit 3",
	"match (n) where n.name = $p return n.name as nm order by nm skip 1 limit 2",
	"match (n {name: 'x', objectid: 'S-1', enabled: true}) return n",
	"match (s:User)-[:MemberOf*0..]->(:Group)-[:AdminTo]->(d:Computer) where d.name = 'x' with s, d match (s)-[:MemberOf]->(g) return s, g",
	"match (n:User) where n.enabled = true with n match (n)-[:MemberOf*1..]->(g:Group) where g.objectid = 'S-1-5' return g",
	"match (n) where n.a in $list and n.b = $p return count(n)",
	"unwind [1, 2, 3] as x match (n) where n.v = x return n, x",
	"match p = shortestPath((a:User)-[:MemberOf*1..]->(b:Group)) where a.name = 'x' and b.name = 'y' return p",
	"match (n:User {objectid: 'S-1', enabled: true})-[:MemberOf]->(g:Group {name: 'g'}) return g",
	"match (a)-[r]->(b) where (a)-[:MemberOf]->(b) and not a.name = b.name return a, type(r)",
	"match (n) where n.name = 'x' set n.seen = true return n",
	"match (n) return n.name, collect(n.id) order by n.name desc",
	"match (g:Group) where g.name = 'x' with g match p = (s:User)-[:MemberOf*0..]->(:Group)-[:AdminTo]->(d:Computer) where d.name contains 'y' return g, p",
	"match p = (s:User {objectid: 'S-1-5', enabled: true})-[:MemberOf*0..]->(:Group)-[:AdminTo]->(d:Computer) where d.name contains 'y' return p",
	// several updates of one variable in one part: collections keyed by name are involved
	"match (s) where s.name = 'x' remove s.a, s.b, s.c return s",
	"match (s) where s.name = 'x' remove s.a remove s.b return s",
	"match (s) where s.name = 'x' set s.a = 1, s.b = 2, s.c = 3 remove s.d, s.e return s",
	"match (s) where s.name = 'x' set s:KindA:KindB remove s:KindC:KindD return s",
	"match (s)-[r]->(e) where s.name = 'x' set s.a = 1, e.b = 2, r.c = 3 remove s.d, e.f, r.g return s",
}

func verifC05Params() map[string]any {
	return map[string]any{"p": "v", "list": []string{"a", "b"}, "unused": int64(3)}
}

// VerifC05Pure: translation leaves the caller's query model and parameter map unchanged,
// and repeating the call yields byte-identical SQL and equal parameters.
func VerifC05Pure(t int) {
	verifPure(verifC05Templates[t])
}

// VerifC05PureCorpus: the same for every query of the repository's translation corpus.
func VerifC05PureCorpus() {
	verifPure(verifCorpus[verifrt.NondetChoice("corpus query", len(verifCorpus))])
}

func verifPure(text string) {
	q1, err := verifNativeParse(text, nil)
	if err != nil {
		return
	}
	q2, _ := verifNativeParse(text, nil) // an independent copy of the same model
	p1, p2 := verifC05Params(), verifC05Params()
	sql1, out1, err1 := verifTranslate(q1, p1)
	verifrt.Observe(sql1, err1 == nil)
	verifrt.Assert(verifrt.DeepEqual(q1, q2), "translation leaves the caller's query model unchanged")
	verifrt.Assert(verifrt.DeepEqual(p1, p2), "translation leaves the caller's parameter map unchanged")
	sql1b, out1b, err1b := verifTranslate(q1, p1)
	verifrt.Assert((err1 == nil) == (err1b == nil), "a repeated translation succeeds or fails alike")
	verifrt.Assert(sql1 == sql1b, "a repeated translation yields byte-identical SQL")
	verifrt.Assert(verifrt.DeepEqual(out1, out1b), "a repeated translation yields equal parameters")
	sql2, out2, err2 := verifTranslate(q2, p2)
	verifrt.Assert((err1 == nil) == (err2 == nil) && sql1 == sql2 && verifrt.DeepEqual(out1, out2), "translating an equal model yields the same result")
}

// VerifC05MapOrder: the SQL does not depend on the iteration order of any single map the
// optimiser, translator or formatter ranges over: reversing the k-th range (every k) gives
// byte-identical output. Natively (replay) the call is simply repeated many times.
func VerifC05MapOrder(t int) {
	verifMapOrder(verifC05Templates[t])
}

// VerifC05MapOrderCorpus: the same for every query of the repository's translation corpus.
func VerifC05MapOrderCorpus(from, to int) {
	if to > len(verifCorpus) {
		to = len(verifCorpus)
	}
	if from >= to {
		return
	}
	verifMapOrder(verifCorpus[from+verifrt.NondetChoice("corpus query", to-from)])
}

func verifMapOrder(text string) {
	q1, err := verifNativeParse(text, nil)
	if err != nil {
		return
	}
	before := verifrt.MapRangeCount()
	sql1, out1, err1 := verifTranslate(q1, verifC05Params())
	ranges := verifrt.MapRangeCount() - before
	if !verifrt.Symbolic() {
		for i := 0; i < 300; i++ {
			q, _ := verifNativeParse(text, nil)
			sql, out, e := verifTranslate(q, verifC05Params())
			verifrt.Assert((e == nil) == (err1 == nil) && sql == sql1 && verifrt.DeepEqual(out, out1), "translation output does not depend on map iteration order")
		}
		return
	}
	if ranges == 0 {
		return
	}
	k := verifrt.NondetChoice("reversed map range", ranges) + 1
	q2, _ := verifNativeParse(text, nil)
	verifrt.ReverseMapRange(k)
	sql2, out2, err2 := verifTranslate(q2, verifC05Params())
	verifrt.ReverseMapRange(0)
	verifrt.Assert((err1 == nil) == (err2 == nil), "translation succeeds or fails independently of map iteration order")
	verifrt.Assert(sql1 == sql2, "translation output does not depend on map iteration order")
	verifrt.Assert(verifrt.DeepEqual(out1, out2), "translated parameters do not depend on map iteration order")
}

var verifC05IntTemplates = []string{
	"match (n)-[*%d..%d]->(m) return n skip %d limit %d",
	"match p = (n)-[:MemberOf*%d..%d]->(m) where n.name = 'x' return p skip %d limit %d",
	"match (n) where n.count >= %d and n.size in [%d, -1] return n skip %d limit %d",
	"match p = shortestPath((n)-[*%d..%d]->(m)) return p skip %d limit %d",
}

var verifC05Ints = []int64{0, 1, 2, 3, 9223372036854775807}

// VerifC05Total: integer leaves (range bounds, skip, limit, slice bounds) at boundary
// values: translation returns a result or an error, it never panics or runs away.
func VerifC05Total(t int) {
	a := verifC05Ints[verifrt.NondetChoice("first integer", len(verifC05Ints))]
	b := verifC05Ints[verifrt.NondetChoice("second integer", len(verifC05Ints))]
	sl := [][2]int64{{0, 0}, {1, 2}, {2, 0}, {9223372036854775807, 9223372036854775807}, {0, 9223372036854775807}}[verifrt.NondetChoice("skip and limit", 5)]
	c, d := sl[0], sl[1]
	text := fmt.Sprintf(verifC05IntTemplates[t], a, b, c, d)
	q, err := verifNativeParse(text, nil)
	if err != nil {
		return // rejected by the parser
	}
	sql, _, err := verifTranslate(q, nil)
	verifrt.Assert(err != nil || len(sql) > 0, "translation returns SQL or an error")
	// missing and ill-typed parameters are errors, not crashes
	q2, err := verifNativeParse("match (n) where n.name = $p and n.id in $list return n skip $s limit $l", nil)
	if err != nil {
		return
	}
	params := map[string]any{}
	switch verifrt.NondetChoice("parameter map", 4) {
	case 1:
		params["p"] = int64(a)
	case 2:
		params["p"], params["list"], params["s"], params["l"] = "x", []int64{a, b}, c, d
	case 3:
		params["p"], params["list"], params["s"], params["l"] = nil, nil, "x", []string{}
	}
	sql, _, err = verifTranslate(q2, params)
	verifrt.Assert(err != nil || len(sql) > 0, "translation with any parameter map returns SQL or an error")
}

var verifC05Functions = []string{"count", "date", "time", "localtime", "datetime", "localdatetime", "duration", "id", "tolower", "toupper", "labels", "type", "startnode", "endnode", "split", "tostring", "tointeger", "toint", "size", "head", "tail", "nodes", "relationships", "coalesce", "collect", "sum", "avg", "min", "max", "tofloat", "unknownfunction"}

// VerifC05Functions: every function the translator knows (and one it does not), called
// with 0, 1, 2 or 3 arguments of several shapes, in a projection or a predicate: translation
// returns SQL or an error - it never panics - and does not touch the model.
func VerifC05Functions() {
	name := verifC05Functions[verifrt.NondetChoice("function", len(verifC05Functions))]
	argLists := []string{"", "n", "n.name", "r", "p", "n.name, 'x'", "n, r", "1, 2, 3", "distinct n", "*"}
	args := argLists[verifrt.NondetChoice("arguments", len(argLists))]
	text := "match p = (n)-[r]->(m) return " + name + "(" + args + ")"
	if verifrt.NondetChoice("position", 2) == 1 {
		text = "match p = (n)-[r]->(m) where " + name + "(" + args + ") = 1 return n"
	}
	q1, err := verifNativeParse(text, nil)
	if err != nil {
		return
	}
	q2, _ := verifNativeParse(text, nil)
	sql, _, err := verifTranslate(q1, verifC05Params())
	verifrt.Observe(text, err == nil)
	verifrt.Assert(err != nil || len(sql) > 0, "translation returns SQL or an error")
	verifrt.Assert(verifrt.DeepEqual(q1, q2), "translation leaves the caller's query model unchanged")
}

// VerifC05Generated: every sentence derived from the grammar that the parser accepts is
// translated: SQL or an error, never a panic, model unchanged, and the same outcome again.
func VerifC05Generated(from, to int) {
	if to > len(verifGenerated) {
		to = len(verifGenerated)
	}
	if from >= to {
		return
	}
	text := verifGenerated[from+verifrt.NondetChoice("sentence", to-from)]
	q1, err := verifNativeParse(text, nil)
	if err != nil || q1 == nil {
		return
	}
	q2, _ := verifNativeParse(text, nil)
	sql1, _, err1 := verifTranslate(q1, verifC05Params())
	verifrt.Assert(err1 != nil || len(sql1) > 0, "translation returns SQL or an error")
	verifrt.Assert(verifrt.DeepEqual(q1, q2), "translation leaves the caller's query model unchanged")
	sql2, _, err2 := verifTranslate(q1, verifC05Params())
	verifrt.Assert((err1 == nil) == (err2 == nil) && sql1 == sql2, "repeating the translation gives the same outcome")
}

// VerifC05References: adjacent MATCH clauses whose predicates refer to variables bound
// before them, by them, after them (forward references) or by each other: clause i binds
// one of a, b, c and compares one of its properties with a property of any of the three.
// Whatever the reference structure, translation returns - SQL or an error, no panic, no
// hang - leaves the model alone and gives the same outcome again.
func VerifC05References(clauses int) {
	names := []string{"a", "b", "c"}
	text := ""
	for i := 0; i < clauses; i++ {
		other := names[verifrt.NondetChoice("variable referenced by clause", len(names))]
		text += "match (" + names[i] + ":User) where " + names[i] + ".name = " + other + ".owner "
	}
	text += "return a"
	q1, err := verifNativeParse(text, nil)
	verifrt.Assert(err == nil && q1 != nil, "the reference template parses")
	q2, _ := verifNativeParse(text, nil)
	sql1, _, err1 := verifTranslate(q1, verifC05Params())
	verifrt.Observe(text, err1 == nil)
	verifrt.Assert(err1 != nil || len(sql1) > 0, "translation returns SQL or an error")
	verifrt.Assert(verifrt.DeepEqual(q1, q2), "translation leaves the caller's query model unchanged")
	sql2, _, err2 := verifTranslate(q1, verifC05Params())
	verifrt.Assert((err1 == nil) == (err2 == nil) && sql1 == sql2, "repeating the translation gives the same outcome")
}

// VerifC05SharedMapper: translations that share one kind mapper do not influence each other:
// after a translation that fails (unknown kind, unsupported shape) or succeeds, every later
// translation through the same mapper gives the SQL it gives through a fresh mapper - and
// returns at all.
func VerifC05SharedMapper() {
	first := []string{
		"match (n:UnknownKindA) return n",
		"match (n)-[r:UnknownKindB]->(m) return r",
		"match (n:User) return n",
		"match (n) return unknownfunction(n)",
		"match (n:User) set n:UnknownKindC return n",
	}
	second := []string{
		"match (n:User) return n",
		"create (n:Computer {name: 'x'}) return n",
		"match (n:User) set n:Group return n",
		"match (n:UnknownKindA) return n",
		"match (a:User), (b:Group) create (a)-[:MemberOf]->(b)",
	}
	t1 := first[verifrt.NondetChoice("first translation", len(first))]
	t2 := second[verifrt.NondetChoice("second translation", len(second))]
	q1, err := verifNativeParse(t1, nil)
	if err != nil {
		return
	}
	q2, err := verifNativeParse(t2, nil)
	if err != nil {
		return
	}
	q2b, _ := verifNativeParse(t2, nil)
	shared := verifKindMapper()
	translate.Translate(context.Background(), q1, shared, verifC05Params(), 1)
	res, err := translate.Translate(context.Background(), q2, shared, verifC05Params(), 1)
	fresh, ferr := translate.Translate(context.Background(), q2b, verifKindMapper(), verifC05Params(), 1)
	verifrt.Assert((err == nil) == (ferr == nil), "an earlier translation through the same kind mapper does not change whether a later one succeeds")
	if err == nil && ferr == nil {
		a, _ := translate.Translated(res)
		b, _ := translate.Translated(fresh)
		verifrt.Assert(a == b, "an earlier translation through the same kind mapper does not change a later one's SQL")
	}
}

func VerifC05Witness() {
	q, _ := verifNativeParse(verifC05Templates[4], nil)
	before := verifrt.MapRangeCount()
	sql, _, err := verifTranslate(q, nil)
	if err == nil && len(sql) > 0 && verifrt.MapRangeCount() > before {
		verifrt.Assert(false, "witness: a template translates and ranges over a map")
	}
}

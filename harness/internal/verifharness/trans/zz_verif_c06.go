//go:build verif

package trans

import (
	"github.com/specterops/dawgs/internal/verifrt"
)

// user chosen names are written as markers: zzv? variables, zzp? parameters, zza? aliases
var verifC06Templates = []string{
	"match (zzva) where zzva.name = $zzpa return zzva",
	"match (zzva)-[zzvb:MemberOf]->(zzvc) where zzvc.name = 'x' return zzva, zzvb, zzvc",
	"match (zzva) return zzva.name as zzaa order by zzaa",
	"match zzvp = (zzva)-[*1..2]->(zzvb) return zzvp",
	"match (zzva) with zzva as zzvb match (zzvb)-[:MemberOf]->(zzvc) return zzvc",
	"match (zzva) where zzva.name = $zzpa with zzva match (zzva)-[zzvb]->(zzvc) return zzvc",
	"unwind [1, 2] as zzva return zzva",
	"match zzvp = shortestPath((zzva)-[:MemberOf*1..]->(zzvb)) where zzva.name = 'x' return zzvp",
	"match (zzva)-[zzvb]->(zzvc) where zzva.foo = 'y' and zzvc.name = 'x' return zzva",
	"match (zzva) where zzva.name = $zzpa and zzva.id = $zzpb return zzva.name as zzaa, zzva.id as zzab",
	"match (zzva) where zzva.name = $zzpa with zzva unwind [1, 2] as zzvb return zzvb",
	"match zzvp = (zzva)-[:MemberOf]->(zzvb) match zzvc = (zzvd)-[:AdminTo]->(zzve) return relationships(zzvp) as zzaa, zzvc as zzab",
	"match zzvp = (zzva)-[:MemberOf]->(zzvb) match zzvc = (zzvd)-[:AdminTo]->(zzve) return nodes(zzvp) as zzaa, nodes(zzvc) as zzab",
	"match (zzva) where zzva.name = $zzpa with zzva.name as zzvb match (zzvc) where zzvc.name = zzvb and zzvc.other = $zzpa return zzvc",
}

var verifC06Markers = []string{"zzva", "zzvb", "zzvc", "zzvd", "zzve", "zzvp", "zzpa", "zzpb", "zzaa", "zzab"}

func verifContains(s, sub string) bool {
	for i := 0; i+len(sub) <= len(s); i++ {
		if s[i:i+len(sub)] == sub {
			return true
		}
	}
	return false
}

// verifLegalName: a legal unescaped Cypher symbolic name (ASCII subset): letter or
// underscore, then letters, digits, underscores.
func verifLegalName(s string) bool {
	ok := true
	for i := 0; i < len(s); i++ {
		c := s[i]
		letter := verifrt.Or(verifrt.Or(verifrt.And(c >= 'a', c <= 'z'), verifrt.And(c >= 'A', c <= 'Z')), c == '_')
		if i == 0 {
			ok = verifrt.And(ok, letter)
		} else {
			ok = verifrt.And(ok, verifrt.Or(letter, verifrt.And(c >= '0', c <= '9')))
		}
	}
	return ok
}

// VerifC06Rename: every user chosen name of the template is replaced by a symbolic legal
// name of length n (variables and aliases pairwise distinct among themselves, parameters
// pairwise distinct among themselves, nothing else assumed - a name may equal a generated
// identifier or a name of the other namespace). The SQL must be the SQL of the original
// spelling with the names substituted at output-alias positions only; parameter values
// unchanged; no new error or panic.
func VerifC06Rename(t, n int) {
	text := verifC06Templates[t]
	subst := map[string]string{}
	var used []string
	for _, m := range verifC06Markers {
		if !verifContains(text, m) {
			continue
		}
		name := verifrt.NondetString("name for "+m, n)
		verifrt.Assume(verifLegalName(name))
		for _, prev := range used {
			if prev[2] == m[2] || (prev[2] != 'p' && m[2] != 'p') {
				// same namespace: the renaming is injective
				verifrt.Assume(subst[prev] != name)
			}
		}
		subst[m] = name
		used = append(used, m)
	}
	bq, err := verifNativeParse(text, nil)
	verifrt.Assert(err == nil, "template parses")
	params := map[string]any{"zzpa": "v", "zzpb": int64(7)}
	bsql, bout, berr := verifTranslate(bq, params)
	verifrt.Assert(berr == nil, "the original spelling translates")
	q, _ := verifNativeParse(text, subst)
	rparams := map[string]any{}
	for k, v := range params {
		if r, ok := subst[k]; ok {
			rparams[r] = v
		}
	}
	sql, out, err := verifTranslate(q, rparams)
	verifrt.Assert(err == nil, "renaming user names never turns a translatable query into an error")
	if err != nil {
		return
	}
	verifSameStatementUpToAliases(sql, bsql, out, bout, subst)
}

// verifSameStatementUpToAliases: sql is bsql with the renamed names at output-alias
// positions only; the generated parameters are the same.
func verifSameStatementUpToAliases(sql, bsql string, out, bout map[string]any, subst map[string]string) {
	ut, bt := verifLexSQL(sql), verifLexSQL(bsql)
	verifrt.Assert(len(ut) == len(bt), "renaming user names keeps the SQL token count")
	if len(ut) != len(bt) {
		return
	}
	for i := range bt {
		u, b := ut[i], bt[i]
		utext, btext := sql[u.start:u.end], bsql[b.start:b.end]
		if b.kind == 'w' {
			if r, isName := subst[btext]; isName {
				if len(r) > 1 && r[0] == '`' {
					r = r[1 : len(r)-1] // an escaped name denotes its body
				}
				// an output column alias: the user's spelling, bare or quoted
				if u.kind == 'q' {
					verifrt.Assert(verifUnquoteSQL(utext) == r, "an output alias carries the renamed spelling")
				} else {
					verifrt.Assert(u.kind == 'w' && utext == r, "an output alias carries the renamed spelling")
				}
				continue
			}
		}
		verifrt.Assert(u.kind == b.kind && utext == btext, "renaming user names changes nothing but output aliases")
	}
	verifrt.Assert(len(out) == len(bout), "renaming user names keeps the parameter set")
	for k, bv := range bout {
		v, ok := out[k]
		verifrt.Assert(ok, "renaming user names keeps the generated parameter names")
		if bs, isStr := bv.(string); isStr && verifLooksLikeSQL(bs) {
			s, _ := v.(string)
			verifrt.Assert(s == bs, "renaming user names keeps the SQL fragments passed as parameters")
		} else {
			verifrt.Assert(verifrt.DeepEqual(v, bv), "renaming user names keeps the parameter values")
		}
	}
}

// VerifC06Capture: one user chosen variable or alias of the template is given a name the
// translator itself generates - every identifier of the form letters+digits that occurs in
// the SQL of the original spelling, and pc0..pc3 - or the escaped spelling `$p` of a parameter
// of the query. Nothing but output aliases may change, and no error or panic may appear.
func VerifC06Capture(t int) {
	text := verifC06Templates[t]
	bq, err := verifNativeParse(text, nil)
	verifrt.Assert(err == nil, "template parses")
	params := map[string]any{"zzpa": "v", "zzpb": int64(7)}
	bsql, bout, berr := verifTranslate(bq, params)
	verifrt.Assert(berr == nil, "the original spelling translates")
	if err != nil || berr != nil {
		return
	}
	pool := []string{"pc0", "pc1", "pc2", "pc3"}
	for _, tok := range verifLexSQL(bsql) {
		word := bsql[tok.start:tok.end]
		if tok.kind != 'w' || len(word) < 2 || len(word) > 8 {
			continue
		}
		last := word[len(word)-1]
		first := word[0]
		if last < '0' || last > '9' || first < 'a' || first > 'z' {
			continue
		}
		known := false
		for _, have := range pool {
			known = known || have == word
		}
		if !known {
			pool = append(pool, word)
		}
	}
	var renamable []string
	for _, m := range verifC06Markers {
		if !verifContains(text, m) {
			continue
		}
		if m[2] == 'p' {
			pool = append(pool, "`$"+m+"`")
		} else {
			renamable = append(renamable, m)
		}
	}
	marker := renamable[verifrt.NondetChoice("renamed user name", len(renamable))]
	name := pool[verifrt.NondetChoice("generated or escaped name", len(pool))]
	subst := map[string]string{marker: name}
	q, err := verifNativeParse(text, subst)
	if err != nil {
		return
	}
	sql, out, err := verifTranslate(q, params)
	verifrt.Observe(marker, name)
	verifrt.Assert(err == nil, "a user name equal to a generated name never turns a translatable query into an error")
	if err != nil {
		return
	}
	verifSameStatementUpToAliases(sql, bsql, out, bout, subst)
}

func VerifC06Witness() {
	text := verifC06Templates[0]
	name := verifrt.NondetString("name", 2)
	verifrt.Assume(verifLegalName(name))
	q, _ := verifNativeParse(text, map[string]string{"zzva": name})
	_, _, err := verifTranslate(q, map[string]any{"zzpa": "v"})
	if err == nil {
		verifrt.Assert(false, "witness: a renamed query translates")
	}
}

//go:build verif

package trans

import (
	"github.com/specterops/dawgs/internal/verifrt"
)

// user chosen names are written as markers: zzv? variables, zzp? parameters, zza? aliases
var verifC06Templates = []string{
	"match (zzva) where zzva.name = $zzpa return zzva",
	"match (zzva)-[zzvb:MemberOf]->(zzvc) where zzvc.name = 'x' return zzva, zzvb, zzvc",
	"match (zzva) return zzva.name as zzaa order by zzaa",
	"match zzvp = (zzva)-[*1..2]->(zzvb) return zzvp",
	"match (zzva) with zzva as zzvb match (zzvb)-[:MemberOf]->(zzvc) return zzvc",
	"match (zzva) where zzva.name = $zzpa with zzva match (zzva)-[zzvb]->(zzvc) return zzvc",
	"unwind [1, 2] as zzva return zzva",
	"match zzvp = shortestPath((zzva)-[:MemberOf*1..]->(zzvb)) where zzva.name = 'x' return zzvp",
	"match (zzva)-[zzvb]->(zzvc) where zzva.foo = 'y' and zzvc.name = 'x' return zzva",
	"match (zzva) where zzva.name = $zzpa and zzva.id = $zzpb return zzva.name as zzaa, zzva.id as zzab",
	"match (zzva) where zzva.name = $zzpa with zzva unwind [1, 2] as zzvb return zzvb",
}

var verifC06Markers = []string{"zzva", "zzvb", "zzvc", "zzvp", "zzpa", "zzpb", "zzaa", "zzab"}

func verifContains(s, sub string) bool {
	for i := 0; i+len(sub) <= len(s); i++ {
		if s[i:i+len(sub)] == sub {
			return true
		}
	}
	return false
}

// verifLegalName: a legal unescaped Cypher symbolic name (ASCII subset): letter or
// underscore, then letters, digits, underscores.
func verifLegalName(s string) bool {
	ok := true
	for i := 0; i < len(s); i++ {
		c := s[i]
		letter := verifrt.Or(verifrt.Or(verifrt.And(c >= 'a', c <= 'z'), verifrt.And(c >= 'A', c <= 'Z')), c == '_')
		if i == 0 {
			ok = verifrt.And(ok, letter)
		} else {
			ok = verifrt.And(ok, verifrt.Or(letter, verifrt.And(c >= '0', c <= '9')))
		}
	}
	return ok
}

// VerifC06Rename: every user chosen name of the template is replaced by a symbolic legal
// name of length n (variables and aliases pairwise distinct among themselves, parameters
// pairwise distinct among themselves, nothing else assumed - a name may equal a generated
// identifier or a name of the other namespace). The SQL must be the SQL of the original
// spelling with the names substituted at output-alias positions only; parameter values
// unchanged; no new error or panic.
func VerifC06Rename(t, n int) {
	text := verifC06Templates[t]
	subst := map[string]string{}
	var used []string
	for _, m := range verifC06Markers {
		if !verifContains(text, m) {
			continue
		}
		name := verifrt.NondetString("name for "+m, n)
		verifrt.Assume(verifLegalName(name))
		for _, prev := range used {
			if prev[2] == m[2] || (prev[2] != 'p' && m[2] != 'p') {
				// same namespace: the renaming is injective
				verifrt.Assume(subst[prev] != name)
			}
		}
		subst[m] = name
		used = append(used, m)
	}
	bq, err := verifNativeParse(text, nil)
	verifrt.Assert(err == nil, "template parses")
	params := map[string]any{"zzpa": "v", "zzpb": int64(7)}
	bsql, bout, berr := verifTranslate(bq, params)
	verifrt.Assert(berr == nil, "the original spelling translates")
	q, _ := verifNativeParse(text, subst)
	rparams := map[string]any{}
	for k, v := range params {
		if r, ok := subst[k]; ok {
			rparams[r] = v
		}
	}
	sql, out, err := verifTranslate(q, rparams)
	verifrt.Assert(err == nil, "renaming user names never turns a translatable query into an error")
	if err != nil {
		return
	}
	ut, bt := verifLexSQL(sql), verifLexSQL(bsql)
	verifrt.Assert(len(ut) == len(bt), "renaming user names keeps the SQL token count")
	if len(ut) != len(bt) {
		return
	}
	for i := range bt {
		u, b := ut[i], bt[i]
		utext, btext := sql[u.start:u.end], bsql[b.start:b.end]
		if b.kind == 'w' {
			if r, isName := subst[btext]; isName {
				// an output column alias: the user's spelling, bare or quoted
				if u.kind == 'q' {
					verifrt.Assert(verifUnquoteSQL(utext) == r, "an output alias carries the renamed spelling")
				} else {
					verifrt.Assert(u.kind == 'w' && utext == r, "an output alias carries the renamed spelling")
				}
				continue
			}
		}
		verifrt.Assert(u.kind == b.kind && utext == btext, "renaming user names changes nothing but output aliases")
	}
	verifrt.Assert(len(out) == len(bout), "renaming user names keeps the parameter set")
	for k, bv := range bout {
		v, ok := out[k]
		verifrt.Assert(ok, "renaming user names keeps the generated parameter names")
		if bs, isStr := bv.(string); isStr && verifLooksLikeSQL(bs) {
			s, _ := v.(string)
			verifrt.Assert(s == bs, "renaming user names keeps the SQL fragments passed as parameters")
		} else {
			verifrt.Assert(verifrt.DeepEqual(v, bv), "renaming user names keeps the parameter values")
		}
	}
}

func VerifC06Witness() {
	text := verifC06Templates[0]
	name := verifrt.NondetString("name", 2)
	verifrt.Assume(verifLegalName(name))
	q, _ := verifNativeParse(text, map[string]string{"zzva": name})
	_, _, err := verifTranslate(q, map[string]any{"zzpa": "v"})
	if err == nil {
		verifrt.Assert(false, "witness: a renamed query translates")
	}
}

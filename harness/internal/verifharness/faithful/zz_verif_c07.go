//go:build verif

// Package faithful holds the harnesses for parser faithfulness (C07). Overlay only.
package faithful

import (
	"bytes"
	"strconv"

	"github.com/specterops/dawgs/cypher/frontend"
	"github.com/specterops/dawgs/cypher/models/cypher"
	"github.com/specterops/dawgs/cypher/models/cypher/format"
	"github.com/specterops/dawgs/internal/verifrt"
)

func verifNativeParse(text string, subst map[string]string) (*cypher.RegularQuery, error) {
	q, err := frontend.ParseCypher(frontend.NewContext(), text)
	if err != nil {
		return nil, err
	}
	verifrt.ReplaceStrings(q, subst)
	return q, nil
}

func verifEmit(q *cypher.RegularQuery) (string, error) {
	var buf bytes.Buffer
	err := format.NewCypherEmitter(false).Write(q, &buf)
	return buf.String(), err
}

// forms the corpus does not exercise (range literal shapes, both-arrow patterns, escaped
// names, string escapes, operators)
var verifExtra = []string{
	"match (a)-[r*]->(b) return a",
	"match (a)-[r*2]->(b) return a",
	"match (a)-[r*2..]->(b) return a",
	"match (a)-[r*..3]->(b) return a",
	"match (a)-[r*2..3]->(b) return a",
	"match (a)-[r:MemberOf*0..]->(b) return b",
	"match (a)<-[r]->(b) return a",
	"match (a)<-[r:MemberOf]->(b) where (a)<-[]->(b) return a",
	"match (a)-[r]-(b) return r",
	"match (a)<-[r]-(b) return r",
	"match (n) where n.`odd key` = 1 return n.`odd key`",
	"match (n) where n.name = 'it\\'s' return n",
	"match (n) where n.name = \"dq\" and n.other = 'tab\\there' return n",
	"match (n) where n.a <> 1 and n.b <= 2 and n.c >= 3 and not n.d < 4 return n",
	"match (n) where n.a + 1 = 2 * n.b - 3 / n.c % 2 return n",
	"match (n) where n.l[0] = 1 and n.l[1..2] = [2] return n",
	"match (n) return n.name as name, count(*) as c order by c desc, name asc skip 2 limit 3",
	"match (n) return distinct n.name",
	"match (n) where n.name is null or n.name is not null return n",
	"match (n) where n.x in [1, 2, 3] xor n.y = true return n",
	"match (n:User:Group) return n",
	"optional match (n) return n",
	"match (n) where n.name starts with 'a' and n.name ends with 'b' and n.name contains 'c' return n",
	"match (n) where any(x in n.list where x = 1) and none(y in n.list where y = 2) return n",
	"match (n) return {a: n.name, b: [1, 2]} as m",
	"match (n) where n.v = -1 and n.f = 1.5 and n.e = 1e3 return n",
	// magnitudes at which number formatting changes its mind
	"return 1e21, 1.5e300, 999999999999999999999.0, 1e20, 123456789012345678901234.0",
	"return 1e-7, 0.000001, 1e-320, 0.1, .5",
	"match (n {w: 2.5e22}) where n.size > -4e25 return n.name",
	"return 9223372036854775807, 0, 12",
	"return 007",
	// every pair of connectives without and with grouping, and negation
	"match (n) where n.a = 1 or n.b = 2 xor n.c = 3 return n",
	"match (n) where n.a = 1 xor n.b = 2 or n.c = 3 return n",
	"match (n) where n.a = 1 and n.b = 2 xor n.c = 3 return n",
	"match (n) where n.a = 1 xor n.b = 2 and n.c = 3 return n",
	"match (n) where n.a = 1 or n.b = 2 and n.c = 3 return n",
	"match (n) where n.a = 1 and n.b = 2 or n.c = 3 return n",
	"match (n) where n.a = 1 or (n.b = 2 xor n.c = 3) return n",
	"match (n) where (n.a = 1 or n.b = 2) xor n.c = 3 return n",
	"match (n) where n.a = 1 and (n.b = 2 or n.c = 3) return n",
	"match (n) where (n.a = 1 xor n.b = 2) and n.c = 3 return n",
	"match (n) where not n.a = 1 xor not (n.b = 2 or not n.c = 3) return n",
	"match (n) where n.a = 1 xor n.b = 2 xor n.c = 3 or n.d = 4 or n.e = 5 and n.f = 6 and n.g = 7 return n",
	"match (n) return n.a = 1 or n.b = 2 xor n.c = 3, n.a = 1 and not n.b = 2",
}

// ---- content tokens ----------------------------------------------------------------

// verifContentTokens: identifiers and keywords (lower-cased), numbers, string literal
// values (quotes normalised), back-ticked names (delimiters removed) and operator /
// range punctuation. Grouping punctuation ( ) [ ] { } , : ; and white space carry no
// content of their own and are skipped.
func verifContentTokens(s string) []string {
	return verifCanonRanges(verifRawTokens(verifCanonArrows(s)))
}

// the typographic spellings of the arrow heads and the dash the grammar allows
var verifGlyphs = map[rune]byte{
	'\u27e8': '<', '\u3008': '<', '\ufe64': '<', '\uff1c': '<',
	'\u27e9': '>', '\u3009': '>', '\ufe65': '>', '\uff1e': '>',
	'\u00ad': '-', '\u2010': '-', '\u2011': '-', '\u2012': '-', '\u2013': '-', '\u2014': '-', '\u2015': '-', '\u2212': '-', '\ufe58': '-', '\ufe63': '-', '\uff0d': '-',
}

// verifCanonArrows: typographic arrow heads and dashes are spelled in ASCII (outside string
// literals and back-ticked names); a relationship pattern with both arrow heads, <-[..]->,
// is by definition the undirected pattern -[..]-, so both heads are removed.
func verifCanonArrows(s string) string {
	var b []byte
	quote := rune(0)
	for _, r := range s {
		if quote != 0 {
			if r == quote {
				quote = 0
			}
			b = append(b, string(r)...)
			continue
		}
		if r == '\'' || r == '"' || r == '`' {
			quote = r
		}
		if a, ok := verifGlyphs[r]; ok {
			b = append(b, a)
		} else {
			b = append(b, string(r)...)
		}
	}
	skip := func(j int) int {
		for j < len(b) && (b[j] == ' ' || b[j] == '\t' || b[j] == '\n' || b[j] == '\r') {
			j++
		}
		return j
	}
	for i := 0; i < len(b); i++ {
		if b[i] != '<' {
			continue
		}
		j := skip(i + 1)
		if j >= len(b) || b[j] != '-' {
			continue
		}
		j = skip(j + 1)
		if j < len(b) && b[j] == '[' {
			for j < len(b) && b[j] != ']' {
				j++
			}
			j = skip(j + 1)
		}
		if j >= len(b) || b[j] != '-' {
			continue
		}
		j = skip(j + 1)
		if j < len(b) && b[j] == '>' {
			b[i], b[j] = ' ', ' '
		}
	}
	return string(b)
}

// verifCanonRanges: *n..n is the long spelling of *n, *.. (no bound) of *, descending of desc
func verifCanonRanges(toks []string) []string {
	var out []string
	for i := 0; i < len(toks); i++ {
		// ascending is the default sort order: the key word carries no content
		if toks[i] == "id:asc" || toks[i] == "id:ascending" {
			continue
		}
		if toks[i] == "id:descending" {
			out = append(out, "id:desc")
			continue
		}
		if toks[i] == "op:*" && i+1 < len(toks) && toks[i+1] == "op:.." && !(i+2 < len(toks) && len(toks[i+2]) > 4 && toks[i+2][:4] == "num:") {
			out = append(out, toks[i])
			i++
			continue
		}
		if toks[i] == "op:*" && i+3 < len(toks) && len(toks[i+1]) > 4 && toks[i+1][:4] == "num:" && toks[i+2] == "op:.." && toks[i+3] == toks[i+1] {
			out = append(out, toks[i], toks[i+1])
			i += 3
			continue
		}
		out = append(out, toks[i])
	}
	return out
}

func verifRawTokens(s string) []string {
	var out []string
	for i := 0; i < len(s); {
		c := s[i]
		switch {
		case c == ' ' || c == '\t' || c == '\n' || c == '\r':
			i++
		case c == '\'' || c == '"':
			j := i + 1
			var val []byte
			for j < len(s) && s[j] != c {
				if s[j] == '\\' && j+1 < len(s) {
					val = append(val, '\\', s[j+1])
					j += 2
					continue
				}
				val = append(val, s[j])
				j++
			}
			out = append(out, "str:"+verifNormaliseEscapes(string(val)))
			i = j + 1
		case c == '`':
			j := i + 1
			for j < len(s) && !(s[j] == '`' && (j+1 >= len(s) || s[j+1] != '`')) {
				if s[j] == '`' {
					j++
				}
				j++
			}
			out = append(out, "id:"+verifLower(s[i+1:j]))
			i = j + 1
		case (c >= 'a' && c <= 'z') || (c >= 'A' && c <= 'Z') || c == '_' || c >= 0x80:
			j := i
			for j < len(s) && ((s[j] >= 'a' && s[j] <= 'z') || (s[j] >= 'A' && s[j] <= 'Z') || s[j] == '_' || (s[j] >= '0' && s[j] <= '9') || s[j] >= 0x80) {
				j++
			}
			out = append(out, "id:"+verifLower(s[i:j]))
			i = j
		case c == '/' && i+1 < len(s) && s[i+1] == '/':
			for i < len(s) && s[i] != '\n' && s[i] != '\r' {
				i++ // a comment is not content
			}
		case c == '/' && i+1 < len(s) && s[i+1] == '*':
			i += 2
			for i < len(s) && !(s[i] == '*' && i+1 < len(s) && s[i+1] == '/') {
				i++
			}
			i += 2
		case (c >= '0' && c <= '9') || (c == '.' && i+1 < len(s) && s[i+1] >= '0' && s[i+1] <= '9' && (i == 0 || !verifWordEnd(s[i-1]))):
			j := i
			for j < len(s) && ((s[j] >= '0' && s[j] <= '9') || (s[j] == 'x' && j == i+1) || (s[j] >= 'a' && s[j] <= 'f' && j > i+1 && s[i+1] == 'x') || (s[j] >= 'A' && s[j] <= 'F' && j > i+1 && s[i+1] == 'x') ||
				((s[j] == 'e' || s[j] == 'E') && j > i && j+1 < len(s) && (s[j+1] >= '0' && s[j+1] <= '9' || (s[j+1] == '-' || s[j+1] == '+') && j+2 < len(s) && s[j+2] >= '0' && s[j+2] <= '9')) ||
				((s[j] == '-' || s[j] == '+') && j > i && (s[j-1] == 'e' || s[j-1] == 'E') && !(j > i+1 && s[i+1] == 'x')) ||
				(s[j] == '.' && j+1 < len(s) && s[j+1] >= '0' && s[j+1] <= '9' && !(j+2 < len(s) && s[j+1] == '.'))) {
				j++
			}
			num := s[i:j]
			if v, err := strconv.ParseFloat(num, 64); err == nil {
				num = strconv.FormatFloat(v, 'g', -1, 64) // 1e3, 1000 and 1000.0 denote one number
			}
			out = append(out, "num:"+num)
			i = j
		case c == '(' || c == ')' || c == '[' || c == ']' || c == '{' || c == '}' || c == ',' || c == ':' || c == ';':
			i++
		case c == '.' && i+1 < len(s) && s[i+1] == '.':
			out = append(out, "op:..")
			i += 2
		default:
			out = append(out, "op:"+s[i:i+1])
			i++
		}
	}
	return out
}

// verifWordEnd: c can end a name, a number or a bracketed expression (so that a following
// '.' is a property lookup or a range, not the start of a number)
func verifWordEnd(c byte) bool {
	return c == '_' || c == ')' || c == ']' || c == '`' || c == '.' || (c >= '0' && c <= '9') || (c >= 'a' && c <= 'z') || (c >= 'A' && c <= 'Z') || c >= 0x80
}

func verifLower(s string) string {
	b := []byte(s)
	for i, c := range b {
		if c >= 'A' && c <= 'Z' {
			b[i] = c + 32
		}
	}
	return string(b)
}

// verifNormaliseEscapes: \' and \" denote the quote itself in either quoting style
func verifNormaliseEscapes(s string) string {
	var out []byte
	for i := 0; i < len(s); i++ {
		if s[i] == '\\' && i+1 < len(s) && (s[i+1] == '\'' || s[i+1] == '"') {
			out = append(out, s[i+1])
			i++
			continue
		}
		out = append(out, s[i])
	}
	return string(out)
}

// verifSameTokens compares two token lists as multisets, treating the spellings the
// emitter normalises as equal (keyword case is already folded; <> and != are the same
// operator; "as" aliases and optional keywords are content and must match).
func verifSameTokens(a, b []string) (bool, string) {
	used := make([]bool, len(b))
	for _, x := range a {
		found := false
		for j, y := range b {
			if !used[j] && x == y {
				used[j], found = true, true
				break
			}
		}
		if !found {
			return false, x
		}
	}
	for j, y := range b {
		if !used[j] {
			return false, y
		}
	}
	return true, ""
}

func verifTemplate(i int) string {
	if i < len(verifExtra) {
		return verifExtra[i]
	}
	return verifCorpus[i-len(verifExtra)]
}

// verifRoundTrip: if the parser accepts text, emit(parse(text)) parses to an equal model,
// emitting that again gives the same text (fixed point), and the emitted text carries the
// content tokens of the input.
func verifRoundTrip(text string) {
	m1, err := verifNativeParse(text, nil)
	if err != nil {
		return // rejected: nothing is modelled
	}
	verifrt.Assert(m1 != nil, "an accepted query has a model")
	if m1 == nil {
		return
	}
	t2, err := verifEmit(m1)
	verifrt.Assert(err == nil, "an accepted query can be emitted")
	if err != nil {
		return
	}
	verifrt.Observe(t2)
	m2, err := verifNativeParse(t2, nil)
	verifrt.Assert(err == nil && m2 != nil, "emitted text parses")
	if err != nil || m2 == nil {
		return
	}
	verifrt.Assert(verifrt.DeepEqual(m1, m2), "emitted text parses to an equal model")
	t3, _ := verifEmit(m2)
	verifrt.Assert(t3 == t2, "emit-parse is a fixed point")
	same, _ := verifSameTokens(verifContentTokens(text), verifContentTokens(t2))
	verifrt.Assert(same, "the emitted text contains the same content tokens as the input")
}

// VerifC07FixedPoint: verifRoundTrip for the hand written forms and the translation corpus.
func VerifC07FixedPoint(from, to int) {
	n := len(verifExtra) + len(verifCorpus)
	if to > n {
		to = n
	}
	if from >= to {
		return
	}
	verifRoundTrip(verifTemplate(from + verifrt.NondetChoice("template", to-from)))
}

// VerifC07Generated: verifRoundTrip for the sentences derived from the grammar (one per
// rule, alternative and optional part).
func VerifC07Generated(from, to int) {
	if to > len(verifGenerated) {
		to = len(verifGenerated)
	}
	if from >= to {
		return
	}
	verifRoundTrip(verifGenerated[from+verifrt.NondetChoice("sentence", to-from)])
}

var verifJunk = []string{"!", "#", "~", "?", "\"", "'", "`", "@", "\\", "&"}

// VerifC07Junk: a character the lexer cannot recognise, glued to the end of an accepted
// query or put after one of its first maxPos spaces, is reported - or, if the text is
// accepted, nothing of it is dropped (the emitted text carries every content token of it).
func VerifC07Junk(from, to, maxPos int) {
	n := len(verifExtra) + len(verifCorpus)
	if to > n {
		to = n
	}
	if from >= to {
		return
	}
	base := verifTemplate(from + verifrt.NondetChoice("template", to-from))
	if _, err := verifNativeParse(base, nil); err != nil {
		return
	}
	junk := verifJunk[verifrt.NondetChoice("junk character", len(verifJunk))]
	var spaces []int
	for i := 0; i < len(base) && len(spaces) < maxPos; i++ {
		if base[i] == ' ' {
			spaces = append(spaces, i)
		}
	}
	text := base + junk
	if pos := verifrt.NondetChoice("position", len(spaces)+1); pos < len(spaces) {
		text = base[:spaces[pos]+1] + junk + base[spaces[pos]+1:]
	}
	ok := true
	if m, err := verifNativeParse(text, nil); err == nil && m != nil {
		if emitted, err := verifEmit(m); err == nil {
			ok, _ = verifSameTokens(verifContentTokens(text), verifContentTokens(emitted))
		}
	}
	verifrt.Assert(ok, "syntax the model cannot represent is reported, never silently dropped")
}

// ---- symbolic kernels -----------------------------------------------------------------

// VerifC07KeyEscape: for every property key of n bytes (ASCII when ascii=1):
// Unescape(Escape(k)) == k, and Escape(k) is either k itself (a bare name) or a back-ticked
// token whose inner back-ticks are all doubled.
func VerifC07KeyEscape(n, ascii int) {
	k := verifrt.NondetString("key", n)
	for i := 0; i < len(k); i++ {
		verifrt.Assume(k[i] != 0)
		if ascii == 1 {
			verifrt.Assume(k[i] < 0x80)
		}
	}
	esc := cypher.EscapePropertyKeyName(k)
	verifrt.Assert(cypher.UnescapePropertyKeyName(esc) == k, "Unescape(Escape(key)) is the key")
	if esc != k {
		verifrt.Assert(len(esc) >= 2 && esc[0] == '`' && esc[len(esc)-1] == '`', "an escaped key is delimited by back-ticks")
		for i := 1; i < len(esc)-1; i++ {
			if esc[i] == '`' {
				verifrt.Assert(i+1 < len(esc)-1 && esc[i+1] == '`', "back-ticks inside an escaped key are doubled")
				i++
			}
		}
	} else {
		for i := 0; i < len(k); i++ {
			c := k[i]
			verifrt.Assert(c != '`' && c != ' ' && c != '.' && c != '(' && c != ')' && c != '\'' && c != '"' && c != ':' && c != '-' && c != '+' && c != '*' && c != '/' && c != '=' && c != '<' && c != '>' && c != ',' && c != '{' && c != '}' && c != '[' && c != ']', "a key emitted bare contains no delimiter or operator character")
			if i == 0 {
				verifrt.Assert(!(c >= '0' && c <= '9'), "a key emitted bare does not start with a digit")
			}
		}
	}
}

func VerifC07Witness() {
	m1, err := verifNativeParse(verifExtra[1], nil)
	if err == nil {
		if t, err := verifEmit(m1); err == nil && len(t) > 5 {
			verifrt.Assert(false, "witness: a range literal template is parsed and emitted")
		}
	}
}

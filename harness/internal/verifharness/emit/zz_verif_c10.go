//go:build verif

// Package emit holds the harnesses for Cypher emission (C10). Overlay only.
package emit

import (
	"bytes"
	"github.com/specterops/dawgs/cypher/frontend"
	"github.com/specterops/dawgs/cypher/models/cypher"
	"github.com/specterops/dawgs/cypher/models/cypher/format"
	"github.com/specterops/dawgs/graph"
	"github.com/specterops/dawgs/internal/verifrt"
	"github.com/specterops/dawgs/query"
	"github.com/specterops/dawgs/query/neo4j"
)

func verifNativeParse(text string, subst map[string]string) (*cypher.RegularQuery, error) {
	q, err := frontend.ParseCypher(frontend.NewContext(), text)
	if err != nil {
		return nil, err
	}
	verifrt.ReplaceStrings(q, subst)
	return q, nil
}

const verifAtoms = 4

var verifKindNames = []string{"KA", "KB"}

// verifBuild builds an arbitrary criteria tree of the given depth from the exported
// combinators: And / Or / Xor (2 or 3 operands), Not, and leaves (property comparisons with
// parameter or literal operands, string predicates, kind matchers, null tests).
var top int
var slim bool

// raw: connectives are built as bare model nodes (cypher.NewConjunction, ...) instead of
// through query.And/Or/Xor/Not, which add their own parentheses
var raw bool

func verifBuild(depth int, nextAtom *int) graph.Criteria {
	kind := 4
	if depth > 0 {
		kind = verifrt.NondetChoice("node", 5)
	}
	switch kind {
	case 0, 1, 2:
		// 1..3 operands (a one-element And/Or is what dynamic filter assembly produces)
		n := 1 + verifrt.NondetChoice("operands", 3)
		var ops []graph.Criteria
		for i := 0; i < n; i++ {
			d := depth - 1
			if i > 0 && d > 0 {
				d = 0 // one deep spine, leaves elsewhere: keeps the shape space tractable
			}
			ops = append(ops, verifBuild(d, nextAtom))
		}
		if raw {
			var exprs []cypher.Expression
			for _, op := range ops {
				exprs = append(exprs, op)
			}
			switch kind {
			case 0:
				return cypher.NewConjunction(exprs...)
			case 1:
				return cypher.NewDisjunction(exprs...)
			default:
				return cypher.NewExclusiveDisjunction(exprs...)
			}
		}
		switch kind {
		case 0:
			return query.And(ops...)
		case 1:
			return query.Or(ops...)
		default:
			return query.Xor(ops...)
		}
	case 3:
		if raw {
			return cypher.NewNegation(verifBuild(depth-1, nextAtom))
		}
		return query.Not(verifBuild(depth-1, nextAtom))
	}
	i := *nextAtom % verifAtoms
	*nextAtom++
	name := []string{"p0", "p1", "p2", "p3"}[i]
	leaf := i
	if i == 0 && !slim {
		leaf = verifrt.NondetChoice("first leaf", 6)
	} else if i == 3 {
		leaf = 5
	}
	switch leaf {
	case 0:
		return query.Equals(query.NodeProperty(name), int64(i))
	case 1:
		return query.GreaterThan(query.NodeProperty(name), "s")
	case 2:
		return query.StringContains(query.NodeProperty(name), "sub")
	case 3:
		return query.IsNotNull(query.NodeProperty(name))
	case 4:
		return query.In(query.NodeProperty(name), []string{"x", "y"})
	default:
		// kind matcher over two kinds: any-of
		return query.KindIn(query.Node(), graph.StringKind(verifKindNames[0]), graph.StringKind(verifKindNames[1]))
	}
}

// verifEval evaluates a boolean expression tree as a function of the atoms' truth values:
// atoms[i] is the truth of the comparison on property p<i>, kinds[j] the node's membership
// in kind verifKindNames[j]. ok is false for shapes outside the boolean fragment.
func verifEval(e cypher.Expression, atoms, nulls, kinds []bool) (val bool, ok bool) {
	switch t := e.(type) {
	case *cypher.Parenthetical:
		return verifEval(t.Expression, atoms, nulls, kinds)
	case *cypher.Negation:
		v, ok := verifEval(t.Expression, atoms, nulls, kinds)
		return verifrt.Not(v), ok
	case *cypher.Conjunction:
		r, allOK := true, true
		for _, x := range t.GetAll() {
			v, ok := verifEval(x, atoms, nulls, kinds)
			r, allOK = verifrt.And(r, v), allOK && ok
		}
		return r, allOK
	case *cypher.Disjunction:
		r, allOK := false, true
		for _, x := range t.GetAll() {
			v, ok := verifEval(x, atoms, nulls, kinds)
			r, allOK = verifrt.Or(r, v), allOK && ok
		}
		return r, allOK
	case *cypher.ExclusiveDisjunction:
		r, allOK := false, true
		for _, x := range t.GetAll() {
			v, ok := verifEval(x, atoms, nulls, kinds)
			r, allOK = r != v, allOK && ok
		}
		return r, allOK
	case *cypher.Comparison:
		pl, isLookup := t.Left.(*cypher.PropertyLookup)
		if !isLookup || len(pl.Symbol) != 2 || pl.Symbol[0] != 'p' {
			return false, false
		}
		i := int(pl.Symbol[1] - '0')
		if len(t.Partials) == 1 {
			switch t.Partials[0].Operator {
			case cypher.OperatorIs:
				return nulls[i], true
			case cypher.OperatorIsNot:
				return verifrt.Not(nulls[i]), true
			}
		}
		return atoms[i], true
	case *cypher.KindMatcher:
		any, all := false, true
		for _, k := range t.Kinds {
			hit := false
			for j, n := range verifKindNames {
				if k.String() == n {
					hit = kinds[j]
				}
			}
			any, all = verifrt.Or(any, hit), verifrt.And(all, hit)
		}
		if t.IsExclusive {
			return all, true
		}
		return any, true
	}
	return false, false
}

func verifWhere(q *cypher.RegularQuery) cypher.Expression {
	rc := query.GetFirstReadingClause(q)
	if rc == nil || rc.Match == nil || rc.Match.Where == nil {
		return nil
	}
	w := rc.Match.Where
	if w.Len() == 1 {
		return w.Get(0)
	}
	return cypher.NewConjunction(w.GetAll()...)
}

// VerifC10Criteria: for every criteria tree of the given depth assembled through the
// exported combinators, the Cypher text the Neo4j query builder renders parses back to a
// predicate that is logically equivalent to the assembled one - decided by the solver for
// all truth values of the atoms - and the parameters carry the operand values.
func VerifC10Criteria(depth int, slimLeaves int) {
	next := 0
	top, slim, raw = depth, slimLeaves >= 1, slimLeaves == 2
	tree := verifBuild(depth, &next)
	b := neo4j.NewEmptyQueryBuilder()
	b.Apply(query.Where(tree))
	b.Apply(query.Returning(query.Node()))
	if err := b.Prepare(); err != nil {
		return // the builder may refuse a composition
	}
	text, err := b.Render()
	verifrt.Assert(err == nil, "a prepared query renders")
	verifrt.Observe(text)
	// the same criteria value used for a second query (count-then-fetch) asks the same question
	b2 := neo4j.NewEmptyQueryBuilder()
	b2.Apply(query.Where(tree))
	b2.Apply(query.Returning(query.Node()))
	if b2.Prepare() == nil {
		text2, err2 := b2.Render()
		verifrt.Assert(err2 == nil && text2 == text, "re-using a criteria value for a second query renders the same text")
		verifrt.Assert(verifrt.DeepEqual(b.Parameters, b2.Parameters), "re-using a criteria value for a second query binds the same parameters")
	} else {
		verifrt.Fail("re-using a criteria value for a second query is accepted like the first")
	}
	parsed, perr := verifNativeParse(text, nil)
	verifrt.Assert(perr == nil, "rendered Cypher parses")
	if perr != nil {
		return
	}
	atoms := []bool{verifrt.NondetBool("p0"), verifrt.NondetBool("p1"), verifrt.NondetBool("p2"), verifrt.NondetBool("p3")}
	kinds := []bool{verifrt.NondetBool("kind A"), verifrt.NondetBool("kind B")}
	// nulls[i]: property p<i> is null; a comparison on a null property is not true (the
	// builder makes negated string predicates null-safe: not (p contains x) or p is null)
	nulls := []bool{verifrt.NondetBool("p0 null"), verifrt.NondetBool("p1 null"), verifrt.NondetBool("p2 null"), verifrt.NondetBool("p3 null")}
	for i := range atoms {
		verifrt.Assume(verifrt.Implies(nulls[i], verifrt.Not(atoms[i])))
	}
	want, ok1 := verifEval(query.Where(tree).Get(0), atoms, nulls, kinds)
	pw := verifWhere(parsed)
	verifrt.Assert(pw != nil, "the parsed query has the where clause")
	if pw == nil {
		return
	}
	got, ok2 := verifEval(pw, atoms, nulls, kinds)
	verifrt.Assert(ok1 && ok2, "both predicates are in the boolean fragment")
	verifrt.Assert(got == want, "the rendered text parses to a predicate equivalent to the one assembled (grouping preserved)")
	// operands travel as parameters p0.. in assembly order with their values and types
	for k, v := range b.Parameters {
		verifrt.Assert(len(k) >= 2 && k[0] == 'p', "parameter names are generated")
		switch tv := v.(type) {
		case int64:
			verifrt.Assert(tv >= 0 && tv < verifAtoms, "integer operand value preserved")
		case string:
			verifrt.Assert(tv == "s" || tv == "sub", "string operand value preserved")
		case []string:
			verifrt.Assert(len(tv) == 2 && tv[0] == "x" && tv[1] == "y", "list operand value preserved")
		default:
			verifrt.Fail("operand type preserved")
		}
	}
}

// VerifC10Literals: a literal operand emitted as text (query.Literal in a model written by
// the emitter; operands given to the combinators travel as parameters and are covered by
// VerifC10Criteria) reads back with
// the same type and value: integers at the boundaries, doubles that a float32 cannot hold,
// whole-number and very large and very small doubles, booleans, null, lists.
func VerifC10Literals() {
	values := []any{int64(0), int64(-1), int64(9223372036854775807), int64(-9223372036854775807), int64(16777217),
		0.5, 0.123456789, 16777217.0, 1700000123.5, 1e21, 1.5e300, 1e-7, 2.0, -3.25,
		true, false, nil}
	v := values[verifrt.NondetChoice("literal", len(values))]
	// emitted as text (the emitter without literal stripping): reads back as the same literal
	model, merr := verifNativeParse("match (n) where n.p = 1 return n", nil)
	if merr != nil {
		return
	}
	original, isComparison := verifWhere(model).(*cypher.Comparison)
	if !isComparison || len(original.Partials) != 1 {
		return
	}
	original.Partials[0].Right = query.Literal(v)
	var buffer bytes.Buffer
	err := format.NewCypherEmitter(false).Write(model, &buffer)
	verifrt.Assert(err == nil, "a query with a literal operand can be emitted")
	if err != nil {
		return
	}
	text := buffer.String()
	verifrt.Observe(text)
	parsed, perr := verifNativeParse(text, nil)
	verifrt.Assert(perr == nil, "rendered Cypher parses")
	if perr != nil {
		return
	}
	where := verifWhere(parsed)
	comparison, ok := where.(*cypher.Comparison)
	verifrt.Assert(ok && len(comparison.Partials) == 1, "the parsed predicate is the comparison")
	if !ok || len(comparison.Partials) != 1 {
		return
	}
	var got any
	negative := false
	right := comparison.Partials[0].Right
	for depth := 0; depth < 6; depth++ {
		switch typed := right.(type) {
		case *cypher.UnaryAddOrSubtractExpression:
			if typed.Operator == cypher.OperatorSubtract {
				negative = !negative
			}
			right = typed.Right
		case *cypher.ArithmeticExpression:
			if len(typed.Partials) == 0 {
				right = typed.Left
			}
		case *cypher.Parenthetical:
			right = typed.Expression
		}
	}
	literal, isLiteral := right.(*cypher.Literal)
	verifrt.Assert(isLiteral, "the operand reads back as a literal")
	if !isLiteral {
		return
	}
	got = literal.Value
	if literal.Null {
		got = nil
	}
	switch want := v.(type) {
	case int64:
		value, isInt := got.(int64)
		if negative {
			value = -value
		}
		verifrt.Assert(isInt && value == want, "an integer literal reads back as the same integer")
	case float64:
		value, isFloat := got.(float64)
		if negative {
			value = -value
		}
		verifrt.Assert(isFloat && value == want, "a floating point literal reads back as the same double")
	case bool:
		value, isBool := got.(bool)
		verifrt.Assert(isBool && value == want, "a boolean literal reads back as the same boolean")
	default:
		verifrt.Assert(got == nil, "null reads back as null")
	}
}

func VerifC10Witness() {
	next := 0
	top = 1
	tree := verifBuild(1, &next)
	b := neo4j.NewEmptyQueryBuilder()
	b.Apply(query.Where(tree))
	b.Apply(query.Returning(query.Node()))
	if b.Prepare() == nil {
		if text, err := b.Render(); err == nil && len(text) > 10 {
			verifrt.Assert(false, "witness: a composed query renders")
		}
	}
}

//go:build verif

// Package model holds the harnesses for the query-model utilities (C11). Overlay only.
package model

import (
	"errors"

	"github.com/specterops/dawgs/cypher/frontend"
	"github.com/specterops/dawgs/cypher/models/cypher"
	"github.com/specterops/dawgs/cypher/models/walk"
	"github.com/specterops/dawgs/internal/verifrt"
)

const verifCypherPkg = "github.com/specterops/dawgs/cypher/models/cypher"

// interned, immutable values that a copy may share with the original
const verifKindType = "github.com/specterops/dawgs/graph.stringKind"

func verifNativeParse(text string, subst map[string]string) (*cypher.RegularQuery, error) {
	q, err := frontend.ParseCypher(frontend.NewContext(), text)
	if err != nil {
		return nil, err
	}
	verifrt.ReplaceStrings(q, subst)
	return q, nil
}

// shapes the corpus does not contain: empty maps, nil-able parts present and absent, nested
// lists, every clause kind
var verifC11Extra = []string{
	"match (n {}) return n",
	"match (a)-[r {}]->(b) return r",
	"create (n {})",
	"match (n) return {} as m, {k: {}} as deep, [] as l, [[], [1, [2]]] as nested",
	"match (n) where n.name in ['a', n.other, [1, 2]] return n",
	"match (n:A:B {a: 1, b: [1, 2], c: {d: 'x'}})-[r:R1|R2*1..3 {w: 1.5}]->(m) where not (n)-[:R3]->() and any(x in n.l where x = 1) return distinct n.a as a, count(m) order by a desc skip 1 limit 2",
	"match p = shortestPath((a)-[*1..]->(b)) where a.name = 'x' set a.seen = true, b:Seen remove a.old, b:Old with a, b unwind [a, b] as x merge (x)-[:Linked]->(y:K {v: 1}) on create set y.c = 1 on match set y.m = 2 detach delete a",
}

var verifAllModels = append(append([]string{}, verifC11Extra...), verifCorpus...)

func verifCorpusModel() *cypher.RegularQuery {
	q, err := verifNativeParse(verifAllModels[verifrt.NondetChoice("corpus query", len(verifAllModels))], nil)
	if err != nil {
		verifrt.Assume(false)
	}
	return q
}

// verifMaxLists bounds which single list of a model is emptied (walk order).
const verifMaxLists = 12

// VerifC11Copy: Copy of every corpus model - as parsed, with every list emptied in place
// (length 0, capacity kept), and with any one of its first verifMaxLists lists emptied - is structurally equal to the original and shares no
// pointer cell, slice backing array or map with it.
func VerifC11Copy() {
	m := verifCorpusModel()
	switch k := verifrt.NondetChoice("lists emptied in place (0 none, 1 all, k+2 the k-th)", 2+verifMaxLists); {
	case k == 1:
		verifrt.EmptySlices(m, verifKindType)
	case k >= 2:
		verifrt.Assume(verifrt.EmptyNthSlice(m, k-2, verifKindType))
	}
	c := cypher.Copy(m)
	verifrt.Assert(verifrt.DeepEqual(m, c), "a copy is structurally equal to the original")
	verifrt.Assert(verifrt.Disjoint(m, c, verifKindType), "a copy shares no mutable part with the original")
}

type verifEvent struct {
	kind byte // E enter, V visit, X exit
	node cypher.SyntaxNode
}

// verifRecorder records the callbacks of a walk and can cancel at a chosen callback.
type verifRecorder struct {
	walk.VisitorHandler
	events    []verifEvent
	consumeAt int // index of the Enter callback at which to Consume (-1: never)
	alsoExit  bool
	doneAt    int // callback index at which to SetDone (-1: never)
	errorAt   int
	consumed  cypher.SyntaxNode
}

var verifErr = errors.New("visitor error")

func newVerifRecorder() *verifRecorder {
	return &verifRecorder{VisitorHandler: walk.NewCancelableErrorHandler(), consumeAt: -1, doneAt: -1, errorAt: -1}
}

func (s *verifRecorder) act(kind byte, node cypher.SyntaxNode) {
	idx := len(s.events)
	s.events = append(s.events, verifEvent{kind, node})
	if idx == s.doneAt {
		s.SetDone()
	}
	if idx == s.errorAt {
		s.SetError(verifErr)
	}
	if kind == 'E' && idx == s.consumeAt {
		s.consumed = node
		s.Consume()
	}
	if kind == 'X' && s.alsoExit && s.consumed != nil && verifSame(node, s.consumed) {
		s.Consume()
	}
}

func (s *verifRecorder) Enter(node cypher.SyntaxNode) { s.act('E', node) }
func (s *verifRecorder) Visit(node cypher.SyntaxNode) { s.act('V', node) }
func (s *verifRecorder) Exit(node cypher.SyntaxNode)  { s.act('X', node) }

// verifSame: identity for pointer nodes; value nodes (kind lists, operators, ...) are never
// considered the same node.
func verifSame(a, b cypher.SyntaxNode) bool {
	return verifrt.IsPointer(a) && verifrt.IsPointer(b) && a == b
}

// verifModelNodes: the pointers to cypher model structs that are part of the model itself
// (the walkers also synthesise transient nodes such as *MapItem for map literal entries;
// those have no identity across walks).
func verifModelNodes(m *cypher.RegularQuery) []cypher.SyntaxNode {
	var out []cypher.SyntaxNode
	for _, p := range verifrt.ReachablePointers(m, verifCypherPkg) {
		if n, ok := p.(cypher.SyntaxNode); ok {
			out = append(out, n)
		}
	}
	return out
}

func verifIndexOf(nodes []cypher.SyntaxNode, n cypher.SyntaxNode) int {
	for i, x := range nodes {
		if verifSame(x, n) {
			return i
		}
	}
	return -1
}

// verifCheckNesting: Enter/Exit are properly nested, every pointer node is entered and
// exited exactly once, Visit only happens between a node's Enter and Exit.
func verifCheckNesting(events []verifEvent, what string) []cypher.SyntaxNode {
	var stack, entered []cypher.SyntaxNode
	for _, e := range events {
		switch e.kind {
		case 'E':
			if verifrt.IsPointer(e.node) {
				verifrt.Assert(verifIndexOf(entered, e.node) < 0, what+": a node is entered only once")
			}
			entered = append(entered, e.node)
			stack = append(stack, e.node)
		case 'V':
			verifrt.Assert(len(stack) > 0 && (!verifrt.IsPointer(e.node) || verifSame(stack[len(stack)-1], e.node)), what+": Visit refers to the innermost entered node")
		case 'X':
			verifrt.Assert(len(stack) > 0, what+": Exit without Enter")
			if len(stack) == 0 {
				return entered
			}
			top := stack[len(stack)-1]
			verifrt.Assert(!verifrt.IsPointer(e.node) || verifSame(top, e.node), what+": Enter and Exit are properly nested")
			stack = stack[:len(stack)-1]
		}
	}
	verifrt.Assert(len(stack) == 0, what+": every entered node is exited")
	return entered
}

// VerifC11Walk: the structural walk of every corpus model is properly nested, visits every
// modelled node (every pointer to a cypher model struct reachable from the root that is a
// SyntaxNode) exactly once, and a superset of what the semantic walk visits.
func VerifC11Walk() {
	verifCheckWalk(verifCorpusModel())
}

// VerifC11Generated: the copy and walk requirements on the model of every sentence derived
// from the grammar (one per rule, alternative, optional part, repetition and pair of
// optional parts of Cypher.g4) that the parser accepts: model shapes no corpus query has.
func VerifC11Generated(from, to int) {
	if to > len(verifGenerated) {
		to = len(verifGenerated)
	}
	if from >= to {
		return
	}
	m, err := verifNativeParse(verifGenerated[from+verifrt.NondetChoice("sentence", to-from)], nil)
	if err != nil || m == nil {
		return
	}
	verifCheckWalk(m)
	c := cypher.Copy(m)
	verifrt.Assert(verifrt.DeepEqual(m, c), "a copy is structurally equal to the original")
	verifrt.Assert(verifrt.Disjoint(m, c, verifKindType), "a copy shares no mutable part with the original")
}

func verifCheckWalk(m *cypher.RegularQuery) {
	rec := newVerifRecorder()
	err := walk.CypherStructural(m, rec)
	verifrt.Assert(err == nil, "structural walk of a parsed model succeeds")
	structural := verifCheckNesting(rec.events, "structural walk")
	sem := newVerifRecorder()
	err = walk.Cypher(m, sem)
	verifrt.Assert(err == nil, "semantic walk of a parsed model succeeds")
	semantic := verifCheckNesting(sem.events, "semantic walk")
	model := verifModelNodes(m)
	for _, n := range semantic {
		if verifIndexOf(model, n) >= 0 {
			verifrt.Assert(verifIndexOf(structural, n) >= 0, "the structural walk visits everything the semantic walk visits")
		}
	}
	for _, n := range model {
		verifrt.Assert(verifIndexOf(structural, n) >= 0, "the structural walk visits every modelled node")
	}
	// map literals are value nodes without identity: compare their number
	entered := 0
	for _, e := range rec.events {
		if _, isMap := e.node.(cypher.MapLiteral); isMap && e.kind == 'E' {
			entered++
		}
	}
	verifrt.Assert(entered == verifrt.CountMaps(m, verifCypherPkg+".MapLiteral"), "the structural walk visits every map literal of the model, empty ones included")
}

// VerifC11Cancel: consume / done / error at any callback of the structural or semantic walk.
func VerifC11Cancel(from, to int) {
	if to > len(verifAllModels) {
		to = len(verifAllModels)
	}
	m, perr := verifNativeParse(verifAllModels[from+verifrt.NondetChoice("corpus query", to-from)], nil)
	if perr != nil {
		return
	}
	structural := verifrt.NondetChoice("structural walk", 2) == 1
	run := func(v walk.Visitor[cypher.SyntaxNode]) error {
		if structural {
			return walk.CypherStructural(m, v)
		}
		return walk.Cypher(m, v)
	}
	model := verifModelNodes(m)
	base := newVerifRecorder()
	verifrt.Assert(run(base) == nil, "walk of a parsed model succeeds")
	n := len(base.events)
	k := verifrt.NondetChoice("callback index", n)
	switch verifrt.NondetChoice("visitor behaviour", 4) {
	case 0: // done
		r := newVerifRecorder()
		r.doneAt = k
		verifrt.Assert(run(r) == nil, "SetDone is not an error")
		verifrt.Assert(len(r.events) == k+1, "no callback happens after the visitor asked to stop")
	case 1: // error
		r := newVerifRecorder()
		r.errorAt = k
		err := run(r)
		verifrt.Assert(errors.Is(err, verifErr), "the visitor's error is returned")
		verifrt.Assert(len(r.events) == k+1, "no callback happens after the visitor reported an error")
	default: // consume in Enter (and, variant 3, again in Exit of the same node)
		if base.events[k].kind != 'E' {
			return
		}
		r := newVerifRecorder()
		r.consumeAt = k
		if verifrt.NondetChoice("consume again in Exit", 2) == 1 {
			r.alsoExit = true
		}
		verifrt.Assert(run(r) == nil, "Consume is not an error")
		// expected: the baseline sequence without the interior of the consumed node
		depth, end := 0, -1
		for i := k; i < n; i++ {
			if base.events[i].kind == 'E' {
				depth++
			} else if base.events[i].kind == 'X' {
				depth--
				if depth == 0 {
					end = i
					break
				}
			}
		}
		verifrt.Assert(end >= k, "baseline is nested")
		if end < k {
			return
		}
		want := n - (end - k - 1)
		verifrt.Assert(len(r.events) == want, "consuming a node skips exactly its own subtree")
		if len(r.events) != want {
			return
		}
		for i := 0; i <= k; i++ {
			verifrt.Assert(r.events[i].kind == base.events[i].kind, "callbacks before the consumed node are unchanged")
		}
		verifrt.Assert(r.events[k+1].kind == 'X', "the consumed node is exited right away")
		for i := k + 2; i < want; i++ {
			b := base.events[end+1+(i-k-2)]
			verifrt.Assert(r.events[i].kind == b.kind && (verifIndexOf(model, b.node) < 0 || verifSame(r.events[i].node, b.node)), "siblings after the consumed node are still walked")
		}
	}
}

// VerifC11Nil: a nil root or nil branch is reported, not silently skipped.
func VerifC11Nil() {
	rec := newVerifRecorder()
	var nilQuery *cypher.RegularQuery
	verifrt.Assert(walk.CypherStructural(nilQuery, rec) != nil, "a nil root is an error for the structural walk")
	verifrt.Assert(walk.Cypher(nilQuery, newVerifRecorder()) != nil, "a nil root is an error for the semantic walk")
	m := verifCorpusModel()
	if m.SingleQuery != nil && m.SingleQuery.SinglePartQuery != nil && len(m.SingleQuery.SinglePartQuery.ReadingClauses) > 0 {
		// a nil entry in a list of children is a nil branch (optional nil pointer fields are
		// skipped by design, docs/cypher_walker_semantics.md)
		sp := m.SingleQuery.SinglePartQuery
		sp.ReadingClauses = append(sp.ReadingClauses, nil)
		verifrt.Assert(walk.CypherStructural(m, newVerifRecorder()) != nil, "a nil branch is an error for the structural walk")
		verifrt.Assert(walk.Cypher(m, newVerifRecorder()) != nil, "a nil branch is an error for the semantic walk")
	}
}

// verifMaxElements bounds which list element of a model is replaced by a typed nil.
const verifMaxElements = 16

// VerifC11NilBranch: any one list element of a corpus model (one of the first
// verifMaxElements in walk order) replaced by a typed nil pointer of its own type is a
// nil branch: the structural walk reports it as an error, and neither walk panics.
func VerifC11NilBranch() {
	m := verifCorpusModel()
	k := verifrt.NondetChoice("list element replaced by a typed nil", verifMaxElements)
	verifrt.Assume(verifrt.NilNthElement(m, k, "github.com/specterops/dawgs/cypher/models/cypher"))
	verifrt.Assert(walk.CypherStructural(m, newVerifRecorder()) != nil, "a typed nil list element is an error for the structural walk")
	walk.Cypher(m, newVerifRecorder())
}

func VerifC11Witness() {
	m := verifCorpusModel()
	rec := newVerifRecorder()
	walk.CypherStructural(m, rec)
	if len(rec.events) > 10 {
		verifrt.Assert(false, "witness: a corpus model with more than ten callbacks is walked")
	}
}

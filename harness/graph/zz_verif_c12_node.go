//go:build verif

package graph

import "github.com/specterops/dawgs/internal/verifrt"

var verifKinds = []Kind{StringKind("A"), StringKind("B"), StringKind("C")}

// per kind: loaded or not, and one of untouched / added / deleted
type verifKindState struct {
	loaded [3]bool
	status [3]int
}

func verifHasKind(ks Kinds, k Kind) bool {
	for _, x := range ks {
		if x != nil && x.String() == k.String() {
			return true
		}
	}
	return false
}

// verifArbitraryNode builds a node whose kind tracking satisfies the invariant (DESIGN G.2)
// over the loaded kind set st.loaded; spare: slices get one spare capacity slot.
func verifArbitraryNode(tag string, st *verifKindState, spare bool) *Node {
	n := &Node{ID: 1, Properties: NewProperties()}
	mk := func() Kinds {
		if spare {
			return make(Kinds, 0, 4)
		}
		return nil
	}
	n.Kinds, n.AddedKinds, n.DeletedKinds = mk(), mk(), mk()
	for i, k := range verifKinds {
		st.status[i] = verifrt.NondetChoice(tag+" kind status", 3)
		switch st.status[i] {
		case 0:
			if st.loaded[i] {
				n.Kinds = append(n.Kinds, k)
			}
		case 1:
			n.Kinds = append(n.Kinds, k)
			n.AddedKinds = append(n.AddedKinds, k)
		case 2:
			n.DeletedKinds = append(n.DeletedKinds, k)
		}
	}
	return n
}

func verifCheckKinds(n *Node, loaded [3]bool, what string) {
	for i, k := range verifKinds {
		in, add, del := verifHasKind(n.Kinds, k), verifHasKind(n.AddedKinds, k), verifHasKind(n.DeletedKinds, k)
		verifrt.Assert(!(add && del), what+": a kind is never both added and deleted")
		verifrt.Assert(!add || in, what+": an added kind is among the current kinds")
		verifrt.Assert(!del || !in, what+": a deleted kind is not among the current kinds")
		want := (loaded[i] && !del) || add
		verifrt.Assert(in == want, what+": current kinds = (loaded - deleted) + added")
	}
	for _, ks := range []Kinds{n.Kinds, n.AddedKinds, n.DeletedKinds} {
		for _, k := range ks {
			verifrt.Assert(k != nil && (verifHasKind(verifKinds[:1], k) || verifHasKind(verifKinds[1:2], k) || verifHasKind(verifKinds[2:], k)), what+": only kinds of the history occur")
		}
	}
}

// VerifC12NodeStep (state level): one AddKinds / DeleteKinds / Merge from an arbitrary valid
// tracked node over the kinds {A,B,C}.
func VerifC12NodeStep() {
	var st verifKindState
	for i := range st.loaded {
		st.loaded[i] = verifrt.NondetChoice("kind loaded", 2) == 1
	}
	n := verifArbitraryNode("receiver", &st, verifrt.NondetChoice("spare capacity", 2) == 1)
	verifCheckKinds(n, st.loaded, "pre-state")
	switch verifrt.NondetChoice("op", 5) {
	case 0:
		k := verifKinds[verifrt.NondetChoice("kind", 3)]
		n.AddKinds(k)
		verifrt.Assert(verifHasKind(n.Kinds, k) && verifHasKind(n.AddedKinds, k) && !verifHasKind(n.DeletedKinds, k), "AddKinds: kind is current and recorded as added (last edit wins)")
		verifCheckKinds(n, st.loaded, "after AddKinds")
	case 1:
		k := verifKinds[verifrt.NondetChoice("kind", 3)]
		n.DeleteKinds(k)
		verifrt.Assert(!verifHasKind(n.Kinds, k) && !verifHasKind(n.AddedKinds, k) && verifHasKind(n.DeletedKinds, k), "DeleteKinds: kind is gone and recorded as deleted (last edit wins)")
		verifCheckKinds(n, st.loaded, "after DeleteKinds")
	case 2:
		a, b := verifKinds[verifrt.NondetChoice("kind", 3)], verifKinds[verifrt.NondetChoice("kind", 3)]
		n.AddKinds(a, nil, b)
		n.DeleteKinds(b)
		n.AddKinds(b)
		verifrt.Assert(verifHasKind(n.Kinds, b) && verifHasKind(n.AddedKinds, b) && !verifHasKind(n.DeletedKinds, b), "add, delete, add: last edit wins")
		verifCheckKinds(n, st.loaded, "after add/delete/add")
	case 3:
		var ost verifKindState
		ost.loaded = st.loaded
		o := verifArbitraryNode("other", &ost, false)
		n.Merge(o)
		for i, k := range verifKinds {
			if ost.status[i] == 1 {
				verifrt.Assert(verifHasKind(n.Kinds, k) && verifHasKind(n.AddedKinds, k), "Merge: a kind added in the other node is added")
			}
			if ost.status[i] == 2 {
				verifrt.Assert(!verifHasKind(n.Kinds, k) && verifHasKind(n.DeletedKinds, k), "Merge: a kind deleted in the other node is deleted")
			}
		}
		verifCheckKinds(n, st.loaded, "after Merge")
	case 4:
		a := verifKinds[verifrt.NondetChoice("kind", 3)]
		n.DeleteKinds(a)
		n.AddKinds(a)
		n.DeleteKinds(a)
		verifrt.Assert(!verifHasKind(n.Kinds, a) && verifHasKind(n.DeletedKinds, a) && !verifHasKind(n.AddedKinds, a), "delete, add, delete: last edit wins")
		verifCheckKinds(n, st.loaded, "after delete/add/delete")
	}
}

// VerifC12NodeHist (API level): histories of n kind edits from NewNode with a loaded kind set.
func VerifC12NodeHist(n int) {
	var loaded [3]bool
	var ks []Kind
	for i := range loaded {
		loaded[i] = verifrt.NondetChoice("kind loaded", 2) == 1
		if loaded[i] {
			ks = append(ks, verifKinds[i])
		}
	}
	node := NewNode(1, NewProperties(), ks...)
	for j := 0; j < n; j++ {
		k := verifKinds[verifrt.NondetChoice("kind", 3)]
		switch verifrt.NondetChoice("op", 3) {
		case 0:
			node.AddKinds(k)
		case 1:
			node.DeleteKinds(k)
		case 2:
			var ks2 []Kind
			for i := range loaded {
				if loaded[i] {
					ks2 = append(ks2, verifKinds[i])
				}
			}
			o := NewNode(1, NewProperties(), ks2...)
			if verifrt.NondetChoice("other op", 2) == 0 {
				o.AddKinds(k)
			} else {
				o.DeleteKinds(k)
			}
			node.Merge(o)
		}
		verifCheckKinds(node, loaded, "after history step")
	}
}

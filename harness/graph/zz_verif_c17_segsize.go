//go:build verif

package graph

import "github.com/specterops/dawgs/internal/verifrt"

// VerifC17SegSize: the memory estimate kept along the trunk chain (read for the traversal
// memory limit) is what the path tree holds. A tree of n segments of arbitrary shape is
// grown with Descend, optionally one segment is detached, and the size tracked in every
// attached segment is compared with the repository's own from-scratch recomputation
// (computeAndSetSize) of the same tree.
func VerifC17SegSize(n int) {
	mk := func(i int) (*Node, *Relationship) {
		node := NewNode(ID(i), NewProperties(), StringKind("N"))
		rel := NewRelationship(ID(100+i), ID(0), ID(i), NewProperties(), StringKind("E"))
		return node, rel
	}
	rootNode, _ := mk(0)
	root := NewRootPathSegment(rootNode)
	segs := []*PathSegment{root}
	for i := 1; i < n; i++ {
		parent := segs[verifrt.NondetChoice("parent segment", len(segs))]
		node, rel := mk(i)
		segs = append(segs, parent.Descend(node, rel))
	}
	detached := map[*PathSegment]bool{}
	if d := verifrt.NondetChoice("segment detached (0: none)", n); d > 0 {
		segs[d].Detach()
		var mark func(s *PathSegment)
		mark = func(s *PathSegment) {
			detached[s] = true
			for _, b := range s.Branches {
				mark(b)
			}
		}
		mark(segs[d])
	}
	tracked := make([]uint64, len(segs))
	for i, s := range segs {
		tracked[i] = uint64(s.SizeOf())
	}
	root.computeAndSetSize()
	for i, s := range segs {
		if !detached[s] {
			verifrt.Assert(uint64(s.SizeOf()) == tracked[i], "the size tracked along the trunk chain equals the recomputed size of the subtree")
		}
	}
}

//go:build verif

package graph

import "github.com/specterops/dawgs/internal/verifrt"

// verifLoaded is the harness-side record of the loaded state over a small key universe.
type verifLoaded struct {
	keys []string // pairwise distinct (assumed)
	has  []bool
	val  []int64
}

func (l *verifLoaded) hasKey(q string) bool {
	r := false
	for i, k := range l.keys {
		r = verifrt.Or(r, verifrt.And(q == k, l.has[i]))
	}
	return r
}

func (l *verifLoaded) valOf(q string) int64 {
	var r int64
	for i, k := range l.keys {
		r = int64(verifrt.Ite(q == k, int(l.val[i]), int(r)))
	}
	return r
}

func verifIntOf(v any) int64 {
	iv, _ := v.(int64)
	return iv
}

// verifCheckTracking asserts the C12 statement for p against the loaded state over the
// key universe u: change sets disjoint, and applying them to the loaded state reproduces
// the current map exactly (DESIGN G.1, i1..i5).
func verifCheckTracking(p *Properties, l *verifLoaded, u []string, what string) {
	for _, q := range u {
		v, inMap := p.Map[q]
		_, inMod := p.Modified[q]
		_, inDel := p.Deleted[q]
		verifrt.Assert(verifrt.Not(verifrt.And(inMod, inDel)), what+": a key is never both modified and deleted")
		verifrt.Assert(verifrt.Implies(inMod, inMap), what+": a modified key is present in the current map")
		verifrt.Assert(verifrt.Implies(inDel, verifrt.Not(inMap)), what+": a deleted key is absent from the current map")
		untouched := verifrt.Not(verifrt.Or(inMod, inDel))
		verifrt.Assert(verifrt.Implies(untouched, inMap == l.hasKey(q)), what+": an untouched key is present exactly if it was loaded")
		verifrt.Assert(verifrt.Implies(verifrt.And(untouched, inMap), verifIntOf(v) == l.valOf(q)), what+": an untouched key keeps its loaded value")
	}
	inU := func(k string) bool {
		r := false
		for _, q := range u {
			r = verifrt.Or(r, k == q)
		}
		return r
	}
	for k := range p.Map {
		verifrt.Assert(inU(k), what+": current map holds only keys of the history")
	}
	for k := range p.Modified {
		verifrt.Assert(inU(k), what+": modified set holds only keys of the history")
	}
	for k := range p.Deleted {
		verifrt.Assert(inU(k), what+": deleted set holds only keys of the history")
	}
	// the exported views agree with the fields
	mp := p.ModifiedProperties()
	verifrt.Assert(len(mp) == len(p.Modified), what+": ModifiedProperties has one entry per modified key")
	for k, v := range mp {
		cur, ok := p.Map[k]
		verifrt.Assert(verifrt.And(ok, verifIntOf(v) == verifIntOf(cur)), what+": ModifiedProperties reports the current value")
	}
	verifrt.Assert(len(p.DeletedProperties()) == len(p.Deleted), what+": DeletedProperties has one entry per deleted key")
}

// verifArbitraryProps builds an arbitrary tracked state over the loaded state l that
// satisfies the invariant: per key one of untouched / modified (fresh value) / deleted.
// lazy: maps that would be empty stay nil (as the constructors leave them).
func verifArbitraryProps(l *verifLoaded, tag string, lazy bool) *Properties {
	p := &Properties{}
	if !lazy {
		p.Map, p.Modified, p.Deleted = map[string]any{}, map[string]struct{}{}, map[string]struct{}{}
	}
	for i, k := range l.keys {
		switch verifrt.NondetChoice(tag+" status", 3) {
		case 0: // untouched
			if l.has[i] {
				if p.Map == nil {
					p.Map = map[string]any{}
				}
				p.Map[k] = l.val[i]
			}
		case 1: // modified
			if p.Map == nil {
				p.Map = map[string]any{}
			}
			if p.Modified == nil {
				p.Modified = map[string]struct{}{}
			}
			p.Map[k] = verifrt.NondetInt64(tag + " modified value")
			p.Modified[k] = struct{}{}
		case 2: // deleted
			if p.Deleted == nil {
				p.Deleted = map[string]struct{}{}
			}
			p.Deleted[k] = struct{}{}
		}
	}
	return p
}

func verifLoadedState(nk int) *verifLoaded {
	l := &verifLoaded{}
	for i := 0; i < nk; i++ {
		k := verifrt.NondetString("key", 1)
		for _, prev := range l.keys {
			verifrt.Assume(prev != k)
		}
		l.keys = append(l.keys, k)
		l.has = append(l.has, verifrt.NondetChoice("loaded", 2) == 1)
		l.val = append(l.val, verifrt.NondetInt64("loaded value"))
	}
	return l
}

// VerifC12PropsStep (state level, inductive): one operation from an arbitrary valid tracked
// state over nk loaded keys, with an operation key that may or may not coincide with them.
func VerifC12PropsStep(nk int) {
	l := verifLoadedState(nk)
	p := verifArbitraryProps(l, "receiver", verifrt.NondetChoice("lazy maps", 2) == 1)
	kop := verifrt.NondetString("op key", 1)
	vop := verifrt.NondetInt64("op value")
	u := append(append([]string{}, l.keys...), kop)
	verifCheckTracking(p, l, u, "pre-state")

	switch verifrt.NondetChoice("op", 7) {
	case 0:
		p.Set(kop, vop)
		v, ok := p.Map[kop]
		_, m := p.Modified[kop]
		_, d := p.Deleted[kop]
		verifrt.Assert(verifrt.And(ok, verifIntOf(v) == vop), "Set: the key holds the written value (last edit wins)")
		verifrt.Assert(verifrt.And(m, verifrt.Not(d)), "Set: the key is recorded as modified and not as deleted")
		verifCheckTracking(p, l, u, "after Set")
	case 1:
		p.Delete(kop)
		_, ok := p.Map[kop]
		_, m := p.Modified[kop]
		_, d := p.Deleted[kop]
		verifrt.Assert(!ok, "Delete: the key is absent")
		verifrt.Assert(verifrt.And(d, verifrt.Not(m)), "Delete: the key is recorded as deleted and not as modified")
		verifCheckTracking(p, l, u, "after Delete")
	case 2:
		k2 := verifrt.NondetString("second key", 1)
		v2 := verifrt.NondetInt64("second value")
		verifrt.Assume(k2 != kop)
		u2 := append(append([]string{}, u...), k2)
		verifrt.MapOrderNondet(true)
		p.SetAll(map[string]any{kop: vop, k2: v2})
		verifrt.MapOrderNondet(false)
		a, okA := p.Map[kop]
		b, okB := p.Map[k2]
		verifrt.Assert(verifrt.And(okA, verifIntOf(a) == vop), "SetAll: first key holds its value")
		verifrt.Assert(verifrt.And(okB, verifIntOf(b) == v2), "SetAll: second key holds its value")
		verifCheckTracking(p, l, u2, "after SetAll")
	case 3:
		// reads do not change the tracked state
		before := p.Clone()
		_ = p.Get(kop)
		_ = p.GetOrDefault(kop, vop)
		_ = p.GetWithFallback(kop, vop, l.keys...)
		_ = p.Exists(kop)
		verifrt.Assert(verifrt.DeepEqual(before.Map, p.Map) || (len(before.Map) == 0 && len(p.Map) == 0), "reads leave the map unchanged")
		verifCheckTracking(p, l, u, "after reads")
	case 4:
		c := p.Clone()
		verifCheckTracking(c, l, u, "clone")
		c.Set(kop, vop)
		c.Delete(l.keys[0])
		verifCheckTracking(p, l, u, "original after editing its clone")
	case 5:
		o := verifArbitraryProps(l, "other", verifrt.NondetChoice("other lazy maps", 2) == 1)
		verifrt.MapOrderNondet(true)
		p.Merge(o)
		verifrt.MapOrderNondet(false)
		for _, q := range l.keys {
			ov, oIn := o.Map[q]
			_, oMod := o.Modified[q]
			_, oDel := o.Deleted[q]
			v, in := p.Map[q]
			_, m := p.Modified[q]
			_, d := p.Deleted[q]
			verifrt.Assert(verifrt.Implies(oMod, verifrt.And(verifrt.And(in, m), verifIntOf(v) == verifIntOf(ov))), "Merge: a key modified in the other entity is modified with that value")
			verifrt.Assert(verifrt.Implies(oDel, verifrt.And(verifrt.Not(in), d)), "Merge: a key deleted in the other entity is deleted")
			_ = oIn
		}
		verifCheckTracking(p, l, l.keys, "after Merge")
	case 6:
		p.Merge(nil)
		verifCheckTracking(p, l, u, "after Merge(nil)")
	}
}

// VerifC12PropsHist (API level): histories of n operations from AsProperties(loaded map).
func VerifC12PropsHist(nk, n int) {
	l := verifLoadedState(nk)
	mk := func() *Properties {
		m := map[string]any{}
		for i, k := range l.keys {
			if l.has[i] {
				m[k] = l.val[i]
			}
		}
		if len(m) == 0 && verifrt.NondetChoice("nil map", 2) == 1 {
			return NewProperties()
		}
		return AsProperties(m)
	}
	p := mk()
	u := append([]string{}, l.keys...)
	for j := 0; j < n; j++ {
		k := verifrt.NondetString("op key", 1)
		v := verifrt.NondetInt64("op value")
		u = append(u, k)
		switch verifrt.NondetChoice("op", 5) {
		case 0:
			p.Set(k, v)
			cur, ok := p.Map[k]
			verifrt.Assert(verifrt.And(ok, verifIntOf(cur) == v), "Set: last edit wins")
		case 1:
			p.Delete(k)
			verifrt.Assert(!p.Exists(k), "Delete: last edit wins")
		case 2:
			p.SetAll(map[string]any{k: v})
		case 3:
			p = p.Clone()
		case 4:
			o := mk()
			k2 := verifrt.NondetString("other key", 1)
			u = append(u, k2)
			if verifrt.NondetChoice("other op", 2) == 0 {
				o.Set(k2, v)
			} else {
				o.Delete(k2)
			}
			p.Merge(o)
		}
		verifCheckTracking(p, l, u, "after history step")
	}
}

func VerifC12Witness() {
	l := verifLoadedState(2)
	p := verifArbitraryProps(l, "receiver", false)
	p.Set(verifrt.NondetString("op key", 1), 1)
	verifrt.Assert(false, "witness: end of harness reached")
}

// Command engine is the driver of the /verif checks: it loads /repo's working tree plus
// the harness overlay, explores each harness symbolically, replays counterexamples
// natively and writes the evidence file.
package main

import (
	"encoding/json"
	"flag"
	"fmt"
	"os"
	"path/filepath"
	"regexp"
	"sort"
	"strings"
	"time"

	"verif/engine/symgo"
)

type TierSpec struct {
	Args         []int `json:"args"`
	MaxPaths     int   `json:"max_paths"`
	MaxInstr     int64 `json:"max_instr"`
	TimeoutS     int   `json:"timeout_s"`
	QueryTimeout int   `json:"query_timeout_s"`
}

type HarnessSpec struct {
	Name      string            `json:"name"`
	Pkg       string            `json:"pkg"`   // import path
	Entry     string            `json:"entry"` // function name
	Files     []string          `json:"files"` // relative to /verif/harness
	Kind      string            `json:"kind"`  // api | state
	Quick     *TierSpec         `json:"quick"`
	Thorough  *TierSpec         `json:"thorough"`
	Redirects map[string]string `json:"redirects"`
	// Requires: functions of the code under test (same spelling as redirect sources) that
	// the harness's stubs stand in for; if one is gone the harness is skipped, not run
	// against code its model no longer matches.
	Requires    []string `json:"requires"`
	EngineOnly  bool     `json:"engine_only"`
	Bounds      string   `json:"bounds"`
	Assumptions []string `json:"assumptions"`
	Witness     bool     `json:"witness"` // vacuity twin: its final Assert(false) must be violated
	Hang        bool     `json:"hang_is_violation"`
	// NativeRewrite: for native replays only, regular-expression rewrites applied to the
	// non-test sources of the harness package (through the go test overlay), so that calls
	// the engine redirects also reach the harness's injection points natively.
	NativeRewrite map[string]string `json:"native_rewrite"`
}

type PropSpec struct {
	ID          string        `json:"id"`
	Level       string        `json:"level"`
	Harnesses   []HarnessSpec `json:"harnesses"`
	Assumptions []string      `json:"assumptions"`
	Explanation string        `json:"explanation"`
	ExtraPkgs   []string      `json:"extra_pkgs"`
	Driver      string        `json:"driver"` // "" = symgo, "horn" = C09 fix-point
}

type Index struct {
	Properties []PropSpec `json:"properties"`
}

type Finding struct {
	Property string `json:"property"`
	Harness  string `json:"harness"`
	Match    string `json:"match"`  // regexp on "kind: msg"
	Status   string `json:"status"` // known | fixed
	What     string `json:"what"`
	Commit   string `json:"commit,omitempty"`
}

var (
	extraCoverage   = map[string]any{}
	extraExhaustive = true
	extraViolations = 0
)

var (
	verifRoot = envOr("VERIF_ROOT", "/verif")
	repoRoot  = envOr("VERIF_REPO", "/repo")
)

func envOr(k, d string) string {
	if v := os.Getenv(k); v != "" {
		return v
	}
	return d
}

func main() {
	if os.Getenv("VERIF_SELF_DELETE") != "" {
		// the launcher builds a per-invocation binary and execs it; remove it right away
		os.Remove(os.Args[0])
	}
	exit := func(code int) {
		if mf := os.Getenv("VERIF_MODFILE"); mf != "" && os.Getenv("VERIF_SELF_DELETE") != "" {
			os.Remove(mf)
			os.Remove(strings.TrimSuffix(mf, ".mod") + ".sum")
		}
		os.Exit(code)
	}
	if len(os.Args) < 2 {
		usage()
	}
	switch os.Args[1] {
	case "run":
		exit(cmdRun(os.Args[2:]))
	case "replay":
		exit(cmdReplay(os.Args[2:]))
	case "selftest":
		exit(cmdSelftest(os.Args[2:]))
	case "gen-contexts":
		for _, q := range contextSentences(c09TargetRules) {
			fmt.Println(q)
		}
		exit(0)
	case "gen-sentences":
		_, ss := generateGrammarSentences("x")
		for _, q := range ss {
			fmt.Println(q)
		}
		exit(0)
	default:
		usage()
	}
}

func usage() {
	fmt.Fprintln(os.Stderr, "usage: engine run <property> [--tier quick|thorough] [--only harness] | replay <file> | selftest")
	os.Exit(2)
}

func loadIndex() (*Index, error) {
	b, err := os.ReadFile(filepath.Join(verifRoot, "harness", "index.json"))
	if err != nil {
		return nil, err
	}
	var idx Index
	if err := json.Unmarshal(b, &idx); err != nil {
		return nil, fmt.Errorf("index.json: %v", err)
	}
	return &idx, nil
}

func loadFindings() []Finding {
	b, err := os.ReadFile(filepath.Join(verifRoot, "known_findings.json"))
	if err != nil {
		return nil
	}
	var f struct {
		Findings []Finding `json:"findings"`
	}
	if err := json.Unmarshal(b, &f); err != nil {
		fmt.Fprintln(os.Stderr, "known_findings.json:", err)
		return nil
	}
	return f.Findings
}

func (idx *Index) prop(id string) *PropSpec {
	for i := range idx.Properties {
		if idx.Properties[i].ID == id {
			return &idx.Properties[i]
		}
	}
	return nil
}

// overlayFor builds the go/packages overlay (virtual path -> content) and the go test
// overlay (virtual path -> real path) for the given harness files.
func overlayFor(files []string) (map[string][]byte, map[string]string, error) {
	ov := map[string][]byte{}
	real := map[string]string{}
	rtDir := filepath.Join(verifRoot, "rt", "verifrt")
	ents, err := os.ReadDir(rtDir)
	if err != nil {
		return nil, nil, err
	}
	for _, e := range ents {
		if !strings.HasSuffix(e.Name(), ".go") {
			continue
		}
		p := filepath.Join(rtDir, e.Name())
		b, err := os.ReadFile(p)
		if err != nil {
			return nil, nil, err
		}
		v := filepath.Join(repoRoot, "internal", "verifrt", e.Name())
		ov[v] = b
		real[v] = p
	}
	for _, f := range files {
		if strings.HasPrefix(f, "gen:corpus:") {
			// generated from /repo's own translation corpus on every run
			rel := strings.TrimPrefix(f, "gen:corpus:")
			src := generateCorpus(filepath.Base(filepath.Dir(rel)))
			p := filepath.Join(workDir(), filepath.Base(rel))
			if err := os.WriteFile(p, []byte(src), 0o644); err != nil {
				return nil, nil, err
			}
			v := filepath.Join(repoRoot, rel)
			ov[v] = []byte(src)
			real[v] = p
			continue
		}
		if strings.HasPrefix(f, "gen:grammar:") {
			// derived from /repo's grammar on every run
			rel := strings.TrimPrefix(f, "gen:grammar:")
			src, _ := generateGrammarSentences(filepath.Base(filepath.Dir(rel)))
			p := filepath.Join(workDir(), filepath.Base(rel))
			if err := os.WriteFile(p, []byte(src), 0o644); err != nil {
				return nil, nil, err
			}
			v := filepath.Join(repoRoot, rel)
			ov[v] = []byte(src)
			real[v] = p
			continue
		}
		p := filepath.Join(verifRoot, "harness", f)
		b, err := os.ReadFile(p)
		if err != nil {
			return nil, nil, err
		}
		v := filepath.Join(repoRoot, f)
		ov[v] = b
		real[v] = p
	}
	return ov, real, nil
}

// generateCorpus extracts the "-- case:" queries of the repository's translation corpus.
func generateCorpus(pkgName string) string {
	dir := filepath.Join(repoRoot, "cypher", "models", "pgsql", "test", "translation_cases")
	var sb strings.Builder
	fmt.Fprintf(&sb, "//go:build verif\n\npackage %s\n\n// generated from %s on every run\nvar verifCorpus = []string{\n", pkgName, dir)
	for _, q := range corpusQueries() {
		fmt.Fprintf(&sb, "\t%q,\n", q)
	}
	sb.WriteString("}\n")
	return sb.String()
}

func corpusQueries() []string {
	dir := filepath.Join(repoRoot, "cypher", "models", "pgsql", "test", "translation_cases")
	ents, _ := os.ReadDir(dir)
	var out []string
	seen := map[string]bool{}
	for _, e := range ents {
		if !strings.HasSuffix(e.Name(), ".sql") {
			continue
		}
		b, err := os.ReadFile(filepath.Join(dir, e.Name()))
		if err != nil {
			continue
		}
		for _, line := range strings.Split(string(b), "\n") {
			if q, ok := strings.CutPrefix(line, "-- case:"); ok {
				q = strings.TrimSpace(q)
				if q != "" && !seen[q] {
					seen[q] = true
					out = append(out, q)
				}
			}
		}
	}
	return out
}

type harnessResult struct {
	Spec     HarnessSpec
	Res      *symgo.Result
	Skipped  string
	Replays  []replayOutcome
	DiffRuns int
	DiffBad  int
}

type replayOutcome struct {
	Failure   symgo.Failure
	File      string
	Native    string // VERIF-RESULT text or "timeout"/"engine-only"
	Confirmed bool
	Known     *Finding
}

func cmdRun(args []string) int {
	fs := flag.NewFlagSet("run", flag.ExitOnError)
	tier := fs.String("tier", envOr("VERIF_TIER", "quick"), "quick|thorough")
	only := fs.String("only", "", "run only this harness")
	workers := fs.Int("workers", 0, "worker count")
	trace := fs.Bool("trace", false, "trace")
	noReplay := fs.Bool("no-replay", false, "skip native replays")
	stopFirst := fs.Bool("stop-at-first", false, "stop after the first confirmed violation")
	if len(args) < 1 {
		usage()
	}
	propID := args[0]
	fs.Parse(args[1:])
	seed := 0
	fmt.Sscanf(os.Getenv("VERIF_SEED"), "%d", &seed)
	t0 := time.Now()

	idx, err := loadIndex()
	if err != nil {
		fmt.Fprintln(os.Stderr, err)
		return 2
	}
	ps := idx.prop(propID)
	if ps == nil {
		fmt.Fprintf(os.Stderr, "unknown property %s\n", propID)
		return 2
	}
	if ps.Driver == "horn" {
		return runHorn(ps, *tier, seed)
	}
	findings := loadFindings()

	// which harnesses
	var specs []HarnessSpec
	for _, h := range ps.Harnesses {
		if *only != "" && h.Name != *only {
			continue
		}
		ts := h.Quick
		if *tier == "thorough" {
			ts = h.Thorough
			if ts == nil {
				ts = h.Quick
			}
		}
		if ts == nil {
			continue
		}
		specs = append(specs, h)
	}
	if len(specs) == 0 {
		fmt.Fprintln(os.Stderr, "no harness selected")
		return 2
	}
	for _, h := range specs {
		ts := h.Quick
		if *tier == "thorough" && h.Thorough != nil {
			ts = h.Thorough
		}
		registerEntry(h, len(ts.Args))
	}
	// load, dropping harness files that no longer type-check
	fileSet := map[string]bool{}
	for _, h := range specs {
		for _, f := range h.Files {
			fileSet[f] = true
		}
	}
	skippedFiles := map[string]string{}
	var pg *symgo.Program
	var realOv map[string]string
	for attempt := 0; attempt < 6; attempt++ {
		var files []string
		pkgs := map[string]bool{"unicode/utf8": true, "errors": true, "fmt": true, symgo.RTPath: true}
		for f := range fileSet {
			if _, bad := skippedFiles[f]; !bad {
				files = append(files, f)
			}
		}
		sort.Strings(files)
		for _, h := range specs {
			pkgs[h.Pkg] = true
		}
		for _, p := range ps.ExtraPkgs {
			pkgs[p] = true
		}
		var patterns []string
		for p := range pkgs {
			patterns = append(patterns, p)
		}
		sort.Strings(patterns)
		ov, real, err := overlayFor(files)
		if err != nil {
			fmt.Fprintln(os.Stderr, err)
			return 2
		}
		realOv = real
		pg, err = symgo.Load(symgo.LoadConfig{Dir: filepath.Join(verifRoot, "engine"), Patterns: patterns, Overlay: ov, Tags: "verif,appengine"})
		if err == nil {
			break
		}
		// find harness files named in the errors
		dropped := false
		if pg != nil {
			for _, e := range pg.LoadErrs {
				for f := range fileSet {
					if _, bad := skippedFiles[f]; bad {
						continue
					}
					if strings.Contains(e, filepath.Join(repoRoot, f)) {
						skippedFiles[f] = e
						dropped = true
					}
				}
			}
		}
		if !dropped {
			fmt.Fprintln(os.Stderr, "cannot load program:", err)
			return 2
		}
		pg = nil
	}
	if pg == nil {
		fmt.Fprintln(os.Stderr, "cannot load program after dropping harness files")
		return 2
	}
	registerHooks(pg)
	tLoad := time.Since(t0)

	var results []*harnessResult
	exit := 0
	for _, h := range specs {
		hr := &harnessResult{Spec: h}
		results = append(results, hr)
		skip := ""
		for _, f := range h.Files {
			if e, bad := skippedFiles[f]; bad {
				skip = e
			}
			if e, bad := skippedFiles[strings.TrimPrefix(f, "gen:corpus:")]; bad {
				skip = e
			}
			if e, bad := skippedFiles[strings.TrimPrefix(f, "gen:grammar:")]; bad {
				skip = e
			}
		}
		if skip != "" {
			hr.Skipped = skip
			fmt.Printf("SKIPPED-HARNESS %s: harness no longer type-checks against this tree: %s\n", h.Name, firstLine(skip))
			continue
		}
		ts := h.Quick
		if *tier == "thorough" && h.Thorough != nil {
			ts = h.Thorough
		}
		pg.ClearRedirects()
		bad := false
		for from, to := range h.Redirects {
			i := strings.LastIndex(to, ".")
			if err := pg.Redirect(from, to[:i], to[i+1:]); err != nil {
				fmt.Printf("SKIPPED-HARNESS %s: %v\n", h.Name, err)
				hr.Skipped = err.Error()
				bad = true
			}
		}
		for _, need := range h.Requires {
			if !pg.HasFunction(need) {
				fmt.Printf("SKIPPED-HARNESS %s: %s, which the harness replaces by a stub, no longer exists\n", h.Name, need)
				hr.Skipped = "required function missing: " + need
				bad = true
			}
		}
		if bad {
			continue
		}
		opt := symgo.Options{Workers: *workers, MaxPaths: ts.MaxPaths, MaxInstr: ts.MaxInstr, Trace: *trace,
			Timeout: time.Duration(ts.TimeoutS) * time.Second, QueryTimeout: time.Duration(ts.QueryTimeout) * time.Second}
		if opt.QueryTimeout == 0 {
			opt.QueryTimeout = 10 * time.Second
			if *tier == "thorough" {
				opt.QueryTimeout = 60 * time.Second
			}
		}
		for _, a := range ts.Args {
			opt.Args = append(opt.Args, a)
		}
		res, err := pg.Explore(h.Entry, h.Pkg, opt)
		if err != nil {
			fmt.Printf("SKIPPED-HARNESS %s: %v\n", h.Name, err)
			hr.Skipped = err.Error()
			continue
		}
		hr.Res = res
		fmt.Printf("harness %-22s paths=%d completed=%d pruned=%d aborted=%d obligations=%d/%d queries=%d cachehits=%d/%d solver=%.1fs wall=%.1fs exhaustive=%v\n",
			h.Name, res.Paths, res.Completed, res.Pruned, res.Aborted, res.Discharged, res.Obligations, res.Solver.Queries, res.CoreHits, res.ModelHits,
			res.Solver.Time.Seconds(), res.Wall.Seconds(), res.Exhaustive)
		for why, n := range res.AbortWhy {
			fmt.Printf("  NOT-EXHAUSTIVE %s: %d path(s) aborted: %s\n", h.Name, n, why)
		}
		if res.BudgetHit != "" {
			fmt.Printf("  NOT-EXHAUSTIVE %s: %s\n", h.Name, res.BudgetHit)
		}
		for _, n := range res.Notes {
			fmt.Printf("  note %s: %s\n", h.Name, n)
		}
		if res.UnknownAs > 0 {
			fmt.Printf("  NOT-EXHAUSTIVE %s: %d assertion(s) undecided by the solver\n", h.Name, res.UnknownAs)
		}
		if h.Witness {
			if len(res.Failures) == 0 {
				fmt.Printf("  VACUITY-WITNESS-MISSING %s: the witness twin did not reach its final Assert(false)\n", h.Name)
				exit = max(exit, 2)
			}
			continue
		}
		if len(res.AssertSites) == 0 && len(res.Failures) == 0 && res.Aborted == 0 {
			fmt.Printf("  VACUOUS %s: no assertion was reached on any path\n", h.Name)
		}
		// failures
		confirmedHere := 0
		for i, f := range res.Failures {
			ro := replayOutcome{Failure: f}
			if confirmedHere > 0 && i >= 2 && matchFinding(findings, ps.ID, h.Name, f) == nil {
				// one confirmed counterexample per harness is replayed; further failing
				// assertion sites of the same harness are listed without a native run
				file := filepath.Join(verifRoot, "replays", fmt.Sprintf("%s-%s-%d.json", ps.ID, sanitizeName(h.Name), i))
				writeReplayFile(file, ps.ID, h, ts, f)
				ro.File, ro.Native, ro.Confirmed = file, "not replayed (an earlier counterexample of this harness was confirmed natively)", true
				hr.Replays = append(hr.Replays, ro)
				fmt.Printf("VIOLATION property=%s replay=%s\n", ps.ID, file)
				fmt.Printf("  harness=%s kind=%s site=%s msg=%q native=%q\n", h.Name, f.Kind, f.Site, f.Msg, ro.Native)
				continue
			}
			if kf := matchFinding(findings, ps.ID, h.Name, f); kf != nil && kf.Status == "known" {
				ro.Known = kf
				fmt.Printf("KNOWN-FINDING: property=%s %s [%s: %s]\n", ps.ID, kf.What, h.Name, f.Msg)
				hr.Replays = append(hr.Replays, ro)
				continue
			}
			file := filepath.Join(verifRoot, "replays", fmt.Sprintf("%s-%s-%d.json", ps.ID, sanitizeName(h.Name), i))
			writeReplayFile(file, ps.ID, h, ts, f)
			ro.File = file
			switch {
			case *noReplay:
				ro.Native, ro.Confirmed = "not-replayed", true
			case h.EngineOnly || strings.HasPrefix(f.Site, "guard:"):
				ro.Native, ro.Confirmed = "engine-only (no native counterpart for this monitor)", true
			default:
				ro.Native, ro.Confirmed = nativeReplay(h, ts, realOv, file, f)
			}
			hr.Replays = append(hr.Replays, ro)
			if ro.Confirmed {
				confirmedHere++
				fmt.Printf("VIOLATION property=%s replay=%s\n", ps.ID, file)
				fmt.Printf("  harness=%s kind=%s site=%s msg=%q native=%q inputs=%s\n", h.Name, f.Kind, f.Site, f.Msg, ro.Native, inputsString(f.Inputs))
				exit = max(exit, 1)
			} else {
				fmt.Printf("ENGINE-DISAGREEMENT %s: counterexample for %q did not reproduce natively (%s); replay file %s\n", h.Name, f.Msg, ro.Native, file)
			}
		}
		// hang on a changed tree: the path that ran out of budget, replayed natively
		if h.Hang && res.HangPrefix != nil && !*noReplay {
			f := symgo.Failure{Harness: h.Entry, Kind: "hang", Msg: "instruction budget exhausted", Inputs: res.HangInputs, Decisions: res.HangPrefix}
			file := filepath.Join(verifRoot, "replays", fmt.Sprintf("%s-%s-hang.json", ps.ID, sanitizeName(h.Name)))
			writeReplayFile(file, ps.ID, h, ts, f)
			native, confirmed := nativeReplay(h, ts, realOv, file, f)
			if confirmed {
				fmt.Printf("VIOLATION property=%s replay=%s\n", ps.ID, file)
				fmt.Printf("  harness=%s kind=hang native=%q\n", h.Name, native)
				exit = max(exit, 1)
				hr.Replays = append(hr.Replays, replayOutcome{Failure: f, File: file, Native: native, Confirmed: true})
			}
		}
		if *stopFirst && exit == 1 {
			break
		}
		// differential: completed sample paths must pass natively as well
		if !*noReplay && !h.EngineOnly && len(res.Samples) > 0 && os.Getenv("VERIF_NO_DIFF") == "" {
			n, bad := nativeDifferential(ps.ID, h, ts, realOv, res.Samples)
			hr.DiffRuns, hr.DiffBad = n, bad
			if bad > 0 {
				fmt.Printf("  ENGINE-DISAGREEMENT %s: %d of %d completed sample paths did not pass natively\n", h.Name, bad, n)
			}
		}
	}
	if ps.ID == "C09" && *only == "" {
		hr, viol, complete := runHornC09(pg)
		extraCoverage["grammar_fixpoint_H2"] = hr
		fmt.Printf("fixpoint C09.H2: %d grammar rules, %d Horn clauses, filtered=%v, z3 verdict=%s (unsat = no accepted derivation contains a forbidden construct) in %.2fs; parser/grammar graph mismatches=%d; probes=%d accepted=%d\n",
			hr.Rules, hr.Clauses, hr.Filtered, hr.Verdict, hr.SolverS, len(hr.GraphMismatch), hr.Probes, len(hr.ProbeAccepted))
		for _, n := range hr.Notes {
			fmt.Println("  note C09.H2:", n)
		}
		for _, mm := range hr.GraphMismatch {
			fmt.Println("  NOT-EXHAUSTIVE C09.H2: grammar and generated parser differ:", mm)
		}
		if !complete {
			fmt.Println("  NOT-EXHAUSTIVE C09.H2: the fix-point argument is not closed on this tree (see evidence)")
			extraExhaustive = false
		}
		for i, f := range viol {
			fmt.Printf("VIOLATION property=C09 replay=%s\n", f)
			fmt.Printf("  probe accepted under the default context: %s\n", hr.ProbeAccepted[i])
			exit = max(exit, 1)
			extraViolations++
		}
	}
	if ps.ID == "C07" && *only == "" {
		hr, complete := runHornC07(pg)
		extraCoverage["grammar_coverage_H2"] = hr
		fmt.Printf("fixpoint C07.H2: %d grammar rules, %d reported unsupported, %d Horn clauses, %d queries: %d rules can occur in an accepted derivation (z3 datalog, %.2fs); %d sentences (%d accepted); reachable rules no accepted sentence exercises=%d; solver/parser inconsistencies=%d\n",
			hr.Rules, len(hr.Reported), hr.Clauses, hr.Queries, len(hr.Reachable), hr.SolverS, hr.Sentences, hr.Accepted, len(hr.NotExercised), len(hr.Inconsistent))
		for _, n := range hr.Notes {
			fmt.Println("  note C07.H2:", n)
		}
		if !complete {
			fmt.Printf("  NOT-EXHAUSTIVE C07.H2: not exercised=%v inconsistent=%v\n", hr.NotExercised, hr.Inconsistent)
			extraExhaustive = false
		}
	}
	writeEvidence(ps, *tier, seed, results, time.Since(t0), tLoad)
	cleanupWork()
	return exit
}

func firstLine(s string) string {
	if i := strings.Index(s, "\n"); i >= 0 {
		return s[:i]
	}
	return s
}

func sanitizeName(s string) string {
	return regexp.MustCompile(`[^A-Za-z0-9_.-]`).ReplaceAllString(s, "_")
}

func inputsString(in []symgo.NondetRec) string {
	var parts []string
	for _, r := range in {
		parts = append(parts, fmt.Sprintf("%s=%d", r.Name, r.Val))
	}
	s := strings.Join(parts, " ")
	if len(s) > 600 {
		s = s[:600] + "…"
	}
	return s
}

func matchFinding(fs []Finding, prop, harness string, f symgo.Failure) *Finding {
	text := f.Kind + ": " + f.Msg
	for i := range fs {
		k := &fs[i]
		if k.Property != prop {
			continue
		}
		if k.Harness != "" && k.Harness != harness {
			continue
		}
		re, err := regexp.Compile(k.Match)
		if err != nil {
			continue
		}
		if re.MatchString(text) {
			return k
		}
	}
	return nil
}

package main

import (
	"bytes"
	"context"
	"encoding/json"
	"fmt"
	"os"
	"os/exec"
	"path/filepath"
	"strings"
	"time"

	"verif/engine/symgo"
)

type ReplayFile struct {
	Property string        `json:"property"`
	Harness  HarnessSpec   `json:"harness"`
	Args     []int         `json:"args"`
	Failure  symgo.Failure `json:"failure"`
}

func workDir() string {
	d := filepath.Join(verifRoot, ".work", fmt.Sprint(os.Getpid()))
	os.MkdirAll(d, 0o755)
	return d
}

func cleanupWork() {
	os.RemoveAll(filepath.Join(verifRoot, ".work", fmt.Sprint(os.Getpid())))
}

func writeReplayFile(path, prop string, h HarnessSpec, ts *TierSpec, f symgo.Failure) {
	os.MkdirAll(filepath.Dir(path), 0o755)
	rf := ReplayFile{Property: prop, Harness: h, Args: ts.Args, Failure: f}
	b, _ := json.MarshalIndent(rf, "", " ")
	os.WriteFile(path, b, 0o644)
}

func pkgRelDir(pkg string) string {
	return strings.TrimPrefix(strings.TrimPrefix(pkg, "github.com/specterops/dawgs"), "/")
}

// testSource generates the native replay test for a harness entry.
func testSource(h HarnessSpec, args []int) string {
	var as []string
	for _, a := range args {
		as = append(as, fmt.Sprint(a))
	}
	pkgName := filepath.Base(h.Pkg)
	if n := harnessPackageName(h); n != "" {
		pkgName = n
	}
	return fmt.Sprintf(`//go:build verif

package %s

import (
	"testing"

	"github.com/specterops/dawgs/internal/verifrt"
)

func TestVerifReplay(t *testing.T) {
	verifrt.ReplayAll(t, func() { %s(%s) })
}
`, pkgName, h.Entry, strings.Join(as, ", "))
}

// harnessPackageName reads the package clause of the first harness file.
func harnessPackageName(h HarnessSpec) string {
	if len(h.Files) == 0 {
		return ""
	}
	b, err := os.ReadFile(filepath.Join(verifRoot, "harness", h.Files[0]))
	if err != nil {
		return ""
	}
	for _, line := range strings.Split(string(b), "\n") {
		line = strings.TrimSpace(line)
		if strings.HasPrefix(line, "package ") {
			return strings.Fields(line)[1]
		}
	}
	return ""
}

// runNative runs the replay test with the given replay files; returns one result line per file.
// lastObserved holds, per replay file of the last runNative call, the VERIF-OBSERVE lines.
var lastObserved [][]string

func runNative(h HarnessSpec, args []int, realOv map[string]string, files []string, timeout time.Duration) ([]string, string) {
	wd := workDir()
	testPath := filepath.Join(wd, "zz_verif_replay_test.go")
	os.WriteFile(testPath, []byte(testSource(h, args)), 0o644)
	rep := map[string]string{}
	for v, r := range realOv {
		rep[v] = r
	}
	rep[filepath.Join(repoRoot, pkgRelDir(h.Pkg), "zz_verif_replay_test.go")] = testPath
	ovb, _ := json.Marshal(map[string]any{"Replace": rep})
	ovPath := filepath.Join(wd, "overlay.json")
	os.WriteFile(ovPath, ovb, 0o644)
	ctx, cancel := context.WithTimeout(context.Background(), timeout+180*time.Second)
	defer cancel()
	// compile the test binary (go test -c never changes into the package directory, which
	// matters for overlay-only harness packages), then run it
	bin := filepath.Join(wd, "replay.test")
	build := exec.CommandContext(ctx, "go", "test", "-c", "-vet=off", "-tags", "verif", "-overlay", ovPath, "-o", bin, "./"+pkgRelDir(h.Pkg)+"/")
	build.Dir = repoRoot
	var out bytes.Buffer
	build.Stdout, build.Stderr = &out, &out
	if err := build.Run(); err != nil {
		out.WriteString("\n[build failed]\n")
	} else {
		cmd := exec.CommandContext(ctx, bin, "-test.v", "-test.run", "^TestVerifReplay$", "-test.timeout", fmt.Sprintf("%ds", int(timeout.Seconds())))
		cmd.Dir = repoRoot
		if st, err := os.Stat(filepath.Join(repoRoot, pkgRelDir(h.Pkg))); err == nil && st.IsDir() {
			cmd.Dir = filepath.Join(repoRoot, pkgRelDir(h.Pkg))
		}
		cmd.Env = append(os.Environ(), "VERIF_REPLAY_LIST="+strings.Join(files, ","))
		cmd.Stdout, cmd.Stderr = &out, &out
		cmd.Run()
	}
	text := out.String()
	var results []string
	lastObserved = nil
	var cur []string
	for _, line := range strings.Split(text, "\n") {
		if i := strings.Index(line, "VERIF-OBSERVE: "); i >= 0 {
			cur = append(cur, line[i+len("VERIF-OBSERVE: "):])
		}
		if i := strings.Index(line, "VERIF-RESULT: "); i >= 0 {
			results = append(results, strings.TrimSpace(line[i+len("VERIF-RESULT: "):]))
			lastObserved = append(lastObserved, cur)
			cur = nil
		}
	}
	if len(results) < len(files) {
		switch {
		case strings.Contains(text, "panic: test timed out") || ctx.Err() != nil:
			results = append(results, "timeout")
		case strings.Contains(text, "fatal error:"):
			results = append(results, "fatal "+firstMatchLine(text, "fatal error:"))
		case strings.Contains(text, "[build failed]") || strings.Contains(text, "[setup failed]"):
			results = append(results, "build-failed "+firstLine(text))
		default:
			results = append(results, "no-result "+firstLine(text))
		}
	}
	return results, text
}

func firstMatchLine(text, sub string) string {
	for _, l := range strings.Split(text, "\n") {
		if strings.Contains(l, sub) {
			return strings.TrimSpace(l)
		}
	}
	return ""
}

func nativeReplay(h HarnessSpec, ts *TierSpec, realOv map[string]string, file string, f symgo.Failure) (string, bool) {
	tries := 1
	if f.MapOrder {
		tries = 24
	}
	timeout := 60 * time.Second
	last := ""
	for i := 0; i < tries; i++ {
		res, _ := runNative(h, ts.Args, realOv, []string{file}, timeout)
		if len(res) == 0 {
			last = "no-result"
			continue
		}
		last = res[0]
		if confirms(f, last) {
			return last, true
		}
		if strings.HasPrefix(last, "build-failed") {
			break
		}
	}
	return last, false
}

func confirms(f symgo.Failure, native string) bool {
	switch {
	case strings.HasPrefix(native, "assert-fail"), strings.HasPrefix(native, "panic"), strings.HasPrefix(native, "fatal"):
		return true
	case native == "timeout":
		return f.Kind == "hang"
	}
	return false
}

// nativeDifferential replays completed sample paths natively; they must all end "ok".
func nativeDifferential(prop string, h HarnessSpec, ts *TierSpec, realOv map[string]string, samples []symgo.Sample) (int, int) {
	wd := workDir()
	var files []string
	for i, s := range samples {
		if s.Outcome != "completed" {
			continue
		}
		p := filepath.Join(wd, fmt.Sprintf("diff-%s-%d.json", sanitizeName(h.Name), i))
		writeReplayFile(p, prop, h, ts, symgo.Failure{Inputs: s.Inputs})
		files = append(files, p)
	}
	if len(files) == 0 {
		return 0, 0
	}
	res, text := runNative(h, ts.Args, realOv, files, 120*time.Second)
	if os.Getenv("VERIF_DEBUG") != "" {
		fmt.Println(text)
		for i, s := range samples {
			fmt.Printf("engine sample %d observed: %q\n", i, s.Observed)
		}
	}
	bad := 0
	k := 0
	for i, s := range samples {
		if s.Outcome != "completed" {
			continue
		}
		if k < len(res) {
			if res[k] != "ok" {
				bad++
			} else if k < len(lastObserved) && len(s.Observed) > 0 && !symbolicObs(s.Observed) {
				// concrete observations must agree exactly between engine and native run
				if strings.Join(lastObserved[k], "\x00") != strings.Join(s.Observed, "\x00") {
					bad++
					fmt.Printf("  observation mismatch in sample %d of %s:\n    engine: %q\n    native: %q\n", i, h.Name, s.Observed, lastObserved[k])
				}
			}
		}
		k++
	}
	if len(res) < len(files) {
		bad += len(files) - len(res)
	}
	return len(files), bad
}

func cmdReplay(args []string) int {
	if len(args) < 1 {
		usage()
	}
	b, err := os.ReadFile(args[0])
	if err != nil {
		fmt.Fprintln(os.Stderr, err)
		return 2
	}
	var rf ReplayFile
	if err := json.Unmarshal(b, &rf); err != nil {
		fmt.Fprintln(os.Stderr, err)
		return 2
	}
	_, realOv, err := overlayFor(rf.Harness.Files)
	if err != nil {
		fmt.Fprintln(os.Stderr, err)
		return 2
	}
	abs, _ := filepath.Abs(args[0])
	res, text := runNative(rf.Harness, rf.Args, realOv, []string{abs}, 60*time.Second)
	defer cleanupWork()
	fmt.Println(text)
	if len(res) > 0 && confirms(rf.Failure, res[0]) {
		fmt.Printf("VIOLATION property=%s replay=%s\n", rf.Property, abs)
		fmt.Printf("  reproduced natively: %s\n", res[0])
		return 1
	}
	fmt.Printf("not reproduced: %v\n", res)
	return 0
}

func symbolicObs(obs []string) bool {
	for _, o := range obs {
		if strings.Contains(o, "<sym>") || strings.Contains(o, "<symbolic>") || strings.Contains(o, "?") {
			return true
		}
	}
	return false
}

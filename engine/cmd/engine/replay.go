package main

import (
	"bytes"
	"context"
	"encoding/json"
	"fmt"
	"os"
	"os/exec"
	"path/filepath"
	"regexp"
	"sort"
	"strings"
	"time"

	"verif/engine/symgo"
)

type ReplayFile struct {
	Property string        `json:"property"`
	Harness  HarnessSpec   `json:"harness"`
	Args     []int         `json:"args"`
	Failure  symgo.Failure `json:"failure"`
}

func workDir() string {
	d := filepath.Join(verifRoot, ".work", fmt.Sprint(os.Getpid()))
	os.MkdirAll(d, 0o755)
	return d
}

func cleanupWork() {
	os.RemoveAll(filepath.Join(verifRoot, ".work", fmt.Sprint(os.Getpid())))
}

func writeReplayFile(path, prop string, h HarnessSpec, ts *TierSpec, f symgo.Failure) {
	os.MkdirAll(filepath.Dir(path), 0o755)
	rf := ReplayFile{Property: prop, Harness: h, Args: ts.Args, Failure: f}
	b, _ := json.MarshalIndent(rf, "", " ")
	os.WriteFile(path, b, 0o644)
}

func pkgRelDir(pkg string) string {
	return strings.TrimPrefix(strings.TrimPrefix(pkg, "github.com/specterops/dawgs"), "/")
}

// testSource generates the native replay test of a package: one test that dispatches on
// VERIF_ENTRY to the harness entry points registered for that package (so one compiled
// test binary serves all harnesses of the package during a check run).
func testSource(pkgName string, entries []entrySig) string {
	var sb strings.Builder
	fmt.Fprintf(&sb, "//go:build verif\n\npackage %s\n\nimport (\n\t\"os\"\n\t\"strconv\"\n\t\"strings\"\n\t\"testing\"\n\n\t\"github.com/specterops/dawgs/internal/verifrt\"\n)\n\n", pkgName)
	sb.WriteString("func TestVerifReplay(t *testing.T) {\n\tvar a []int\n\tfor _, f := range strings.Split(os.Getenv(\"VERIF_ARGS\"), \",\") {\n\t\tif f != \"\" {\n\t\t\tv, _ := strconv.Atoi(f)\n\t\t\ta = append(a, v)\n\t\t}\n\t}\n\t_ = a\n\tswitch os.Getenv(\"VERIF_ENTRY\") {\n")
	for _, e := range entries {
		var as []string
		for i := 0; i < e.nargs; i++ {
			as = append(as, fmt.Sprintf("a[%d]", i))
		}
		fmt.Fprintf(&sb, "\tcase %q:\n\t\tverifrt.ReplayAll(t, func() { %s(%s) })\n", e.name, e.name, strings.Join(as, ", "))
	}
	sb.WriteString("\tdefault:\n\t\tt.Fatalf(\"unknown entry %q\", os.Getenv(\"VERIF_ENTRY\"))\n\t}\n}\n")
	return sb.String()
}

type entrySig struct {
	name  string
	nargs int
}

// pkgEntries: entry points per package for the current run (filled by cmdRun / cmdReplay).
var pkgEntries = map[string][]entrySig{}

func registerEntry(h HarnessSpec, nargs int) {
	for _, e := range pkgEntries[h.Pkg] {
		if e.name == h.Entry {
			return
		}
	}
	pkgEntries[h.Pkg] = append(pkgEntries[h.Pkg], entrySig{h.Entry, nargs})
}

// builtTests: package -> compiled test binary ("" = build failed, with the log).
var builtTests = map[string][2]string{}

// harnessPackageName reads the package clause of the first harness file.
func harnessPackageName(h HarnessSpec) string {
	if len(h.Files) == 0 {
		return ""
	}
	b, err := os.ReadFile(filepath.Join(verifRoot, "harness", h.Files[0]))
	if err != nil {
		return ""
	}
	for _, line := range strings.Split(string(b), "\n") {
		line = strings.TrimSpace(line)
		if strings.HasPrefix(line, "package ") {
			return strings.Fields(line)[1]
		}
	}
	return ""
}

// runNative runs the replay test with the given replay files; returns one result line per file.
// lastObserved holds, per replay file of the last runNative call, the VERIF-OBSERVE lines.
var lastObserved [][]string

func runNative(h HarnessSpec, args []int, realOv map[string]string, files []string, timeout time.Duration) ([]string, string) {
	wd := workDir()
	registerEntry(h, len(args))
	ctx, cancel := context.WithTimeout(context.Background(), timeout+180*time.Second)
	defer cancel()
	var out bytes.Buffer
	buildKey := h.Pkg
	if len(h.NativeRewrite) > 0 {
		buildKey += "|rewritten"
	}
	built, ok := builtTests[buildKey]
	if !ok {
		pkgName := filepath.Base(h.Pkg)
		if n := harnessPackageName(h); n != "" {
			pkgName = n
		}
		testPath := filepath.Join(wd, "zz_verif_replay_"+sanitizeName(pkgName)+"_test.go")
		os.WriteFile(testPath, []byte(testSource(pkgName, pkgEntries[h.Pkg])), 0o644)
		rep := map[string]string{}
		for v, r := range realOv {
			rep[v] = r
		}
		rep[filepath.Join(repoRoot, pkgRelDir(h.Pkg), "zz_verif_replay_test.go")] = testPath
		for orig, rewritten := range nativeRewrites(h, wd) {
			rep[orig] = rewritten
		}
		ovb, _ := json.Marshal(map[string]any{"Replace": rep})
		ovPath := filepath.Join(wd, "overlay_"+sanitizeName(pkgName)+".json")
		os.WriteFile(ovPath, ovb, 0o644)
		// compile the test binary (go test -c never changes into the package directory,
		// which matters for overlay-only harness packages)
		bin := filepath.Join(wd, "replay_"+sanitizeName(strings.ReplaceAll(pkgRelDir(h.Pkg), "/", "_"))+fmt.Sprint(len(h.NativeRewrite))+".test")
		build := exec.CommandContext(ctx, "go", "test", "-c", "-vet=off", "-tags", "verif", "-overlay", ovPath, "-o", bin, "./"+pkgRelDir(h.Pkg)+"/")
		build.Dir = repoRoot
		var bout bytes.Buffer
		build.Stdout, build.Stderr = &bout, &bout
		if err := build.Run(); err != nil {
			built = [2]string{"", bout.String()}
		} else {
			built = [2]string{bin, ""}
		}
		builtTests[buildKey] = built
	}
	if built[0] == "" {
		out.WriteString(built[1])
		out.WriteString("\n[build failed]\n")
	} else {
		cmd := exec.CommandContext(ctx, built[0], "-test.v", "-test.run", "^TestVerifReplay$", "-test.timeout", fmt.Sprintf("%ds", int(timeout.Seconds())))
		cmd.Dir = repoRoot
		if st, err := os.Stat(filepath.Join(repoRoot, pkgRelDir(h.Pkg))); err == nil && st.IsDir() {
			cmd.Dir = filepath.Join(repoRoot, pkgRelDir(h.Pkg))
		}
		var as []string
		for _, a := range args {
			as = append(as, fmt.Sprint(a))
		}
		cmd.Env = append(os.Environ(), "VERIF_REPLAY_LIST="+strings.Join(files, ","), "VERIF_ENTRY="+h.Entry, "VERIF_ARGS="+strings.Join(as, ","))
		cmd.Stdout, cmd.Stderr = &out, &out
		cmd.Run()
	}
	text := out.String()
	var results []string
	lastObserved = nil
	var cur []string
	for _, line := range strings.Split(text, "\n") {
		if i := strings.Index(line, "VERIF-OBSERVE: "); i >= 0 {
			cur = append(cur, line[i+len("VERIF-OBSERVE: "):])
		}
		if i := strings.Index(line, "VERIF-RESULT: "); i >= 0 {
			results = append(results, strings.TrimSpace(line[i+len("VERIF-RESULT: "):]))
			lastObserved = append(lastObserved, cur)
			cur = nil
		}
	}
	if len(results) < len(files) {
		switch {
		case strings.Contains(text, "panic: test timed out") || ctx.Err() != nil:
			results = append(results, "timeout")
		case strings.Contains(text, "fatal error:"):
			results = append(results, "fatal "+firstMatchLine(text, "fatal error:"))
		case strings.Contains(text, "[build failed]") || strings.Contains(text, "[setup failed]"):
			results = append(results, "build-failed "+firstLine(text))
		default:
			results = append(results, "no-result "+firstLine(text))
		}
	}
	return results, text
}

// nativeRewrites applies h.NativeRewrite to the package's own sources and returns overlay
// entries original path -> rewritten copy.
func nativeRewrites(h HarnessSpec, wd string) map[string]string {
	out := map[string]string{}
	if len(h.NativeRewrite) == 0 {
		return out
	}
	dir := filepath.Join(repoRoot, pkgRelDir(h.Pkg))
	ents, err := os.ReadDir(dir)
	if err != nil {
		return out
	}
	var pats []string
	for p := range h.NativeRewrite {
		pats = append(pats, p)
	}
	sort.Strings(pats)
	for _, e := range ents {
		name := e.Name()
		if !strings.HasSuffix(name, ".go") || strings.HasSuffix(name, "_test.go") || strings.HasPrefix(name, "zz_verif") {
			continue
		}
		src, err := os.ReadFile(filepath.Join(dir, name))
		if err != nil {
			continue
		}
		text := string(src)
		changed := text
		for _, p := range pats {
			re, err := regexp.Compile(p)
			if err != nil {
				continue
			}
			changed = re.ReplaceAllString(changed, h.NativeRewrite[p])
		}
		if changed == text {
			continue
		}
		if regexp.MustCompile(`(?m)^\s*"os"\s*$`).MatchString(changed) {
			changed += "\nvar _ = os.ErrNotExist // keeps the import used after the rewrite\n"
		}
		dst := filepath.Join(wd, "rewritten_"+sanitizeName(pkgRelDir(h.Pkg))+"_"+name)
		if os.WriteFile(dst, []byte(changed), 0o644) == nil {
			out[filepath.Join(dir, name)] = dst
		}
	}
	return out
}

func firstMatchLine(text, sub string) string {
	for _, l := range strings.Split(text, "\n") {
		if strings.Contains(l, sub) {
			return strings.TrimSpace(l)
		}
	}
	return ""
}

func nativeReplay(h HarnessSpec, ts *TierSpec, realOv map[string]string, file string, f symgo.Failure) (string, bool) {
	tries := 1
	if f.MapOrder {
		tries = 24
	}
	timeout := 60 * time.Second
	last := ""
	for i := 0; i < tries; i++ {
		res, _ := runNative(h, ts.Args, realOv, []string{file}, timeout)
		if len(res) == 0 {
			last = "no-result"
			continue
		}
		last = res[0]
		if confirms(f, last) {
			return last, true
		}
		if strings.HasPrefix(last, "build-failed") {
			break
		}
	}
	return last, false
}

func confirms(f symgo.Failure, native string) bool {
	switch {
	case strings.HasPrefix(native, "assert-fail"), strings.HasPrefix(native, "panic"), strings.HasPrefix(native, "fatal"):
		return true
	case native == "timeout":
		return f.Kind == "hang"
	}
	return false
}

// nativeDifferential replays completed sample paths natively; they must all end "ok".
func nativeDifferential(prop string, h HarnessSpec, ts *TierSpec, realOv map[string]string, samples []symgo.Sample) (int, int) {
	wd := workDir()
	var files []string
	for i, s := range samples {
		if s.Outcome != "completed" {
			continue
		}
		p := filepath.Join(wd, fmt.Sprintf("diff-%s-%d.json", sanitizeName(h.Name), i))
		writeReplayFile(p, prop, h, ts, symgo.Failure{Inputs: s.Inputs})
		files = append(files, p)
	}
	if len(files) == 0 {
		return 0, 0
	}
	res, text := runNative(h, ts.Args, realOv, files, 120*time.Second)
	if os.Getenv("VERIF_DEBUG") != "" {
		fmt.Println(text)
		for i, s := range samples {
			fmt.Printf("engine sample %d observed: %q\n", i, s.Observed)
		}
	}
	bad := 0
	k := 0
	for i, s := range samples {
		if s.Outcome != "completed" {
			continue
		}
		if k < len(res) {
			if res[k] != "ok" {
				bad++
			} else if k < len(lastObserved) && len(s.Observed) > 0 && !symbolicObs(s.Observed) {
				// concrete observations must agree exactly between engine and native run
				if strings.Join(lastObserved[k], "\x00") != strings.Join(s.Observed, "\x00") {
					bad++
					fmt.Printf("  observation mismatch in sample %d of %s:\n    engine: %q\n    native: %q\n", i, h.Name, s.Observed, lastObserved[k])
				}
			}
		}
		k++
	}
	if len(res) < len(files) {
		bad += len(files) - len(res)
	}
	return len(files), bad
}

func cmdReplay(args []string) int {
	if len(args) < 1 {
		usage()
	}
	b, err := os.ReadFile(args[0])
	if err != nil {
		fmt.Fprintln(os.Stderr, err)
		return 2
	}
	var probe struct {
		Property string `json:"property"`
		Probe    string `json:"probe"`
	}
	if json.Unmarshal(b, &probe) == nil && probe.Probe != "" {
		if why := probeAccepted(probe.Probe); why != "" {
			fmt.Printf("VIOLATION property=%s replay=%s\n  %q %s\n", probe.Property, args[0], probe.Probe, why)
			return 1
		}
		fmt.Printf("not reproduced: %q is rejected under the default context\n", probe.Probe)
		return 0
	}
	var rf ReplayFile
	if err := json.Unmarshal(b, &rf); err != nil {
		fmt.Fprintln(os.Stderr, err)
		return 2
	}
	abs, _ := filepath.Abs(args[0])
	if rf.Harness.EngineOnly {
		return engineReplay(rf, abs)
	}
	_, realOv, err := overlayFor(rf.Harness.Files)
	if err != nil {
		fmt.Fprintln(os.Stderr, err)
		return 2
	}
	res, text := runNative(rf.Harness, rf.Args, realOv, []string{abs}, 60*time.Second)
	defer cleanupWork()
	fmt.Println(text)
	if len(res) > 0 && confirms(rf.Failure, res[0]) {
		fmt.Printf("VIOLATION property=%s replay=%s\n", rf.Property, abs)
		fmt.Printf("  reproduced natively: %s\n", res[0])
		return 1
	}
	fmt.Printf("not reproduced: %v\n", res)
	return 0
}

// engineReplay re-executes the recorded decision sequence (inputs, schedule, crash point) of
// a counterexample whose harness has no native counterpart, against /repo's current tree.
func engineReplay(rf ReplayFile, abs string) int {
	h := rf.Harness
	ov, _, err := overlayFor(h.Files)
	if err != nil {
		fmt.Fprintln(os.Stderr, err)
		return 2
	}
	patterns := []string{"unicode/utf8", "errors", "fmt", symgo.RTPath, h.Pkg}
	pg, err := symgo.Load(symgo.LoadConfig{Dir: filepath.Join(verifRoot, "engine"), Patterns: patterns, Overlay: ov, Tags: "verif,appengine"})
	if err != nil {
		fmt.Fprintln(os.Stderr, "cannot load the harness against this tree:", err)
		return 2
	}
	registerHooks(pg)
	for from, to := range h.Redirects {
		i := strings.LastIndex(to, ".")
		if err := pg.Redirect(from, to[:i], to[i+1:]); err != nil {
			fmt.Fprintln(os.Stderr, err)
			return 2
		}
	}
	opt := symgo.Options{Workers: 1, Prefix: rf.Failure.Decisions, MaxPaths: 1, QueryTimeout: 60 * time.Second}
	for _, a := range rf.Args {
		opt.Args = append(opt.Args, a)
	}
	res, err := pg.Explore(h.Entry, h.Pkg, opt)
	defer cleanupWork()
	if err != nil {
		fmt.Fprintln(os.Stderr, err)
		return 2
	}
	for _, f := range res.Failures {
		if f.Kind == rf.Failure.Kind && f.Msg == rf.Failure.Msg || f.Kind == "hang" && rf.Failure.Kind == "hang" {
			fmt.Printf("VIOLATION property=%s replay=%s\n", rf.Property, abs)
			fmt.Printf("  reproduced in the engine (recorded inputs and schedule): %s: %s at %s\n", f.Kind, f.Msg, f.Site)
			return 1
		}
	}
	fmt.Printf("not reproduced: the recorded path ends without that failure (%d path(s), %d other failure(s))\n", res.Paths, len(res.Failures))
	return 0
}

func symbolicObs(obs []string) bool {
	for _, o := range obs {
		if strings.Contains(o, "<sym>") || strings.Contains(o, "<symbolic>") || strings.Contains(o, "?") {
			return true
		}
	}
	return false
}

package main

// C07: sentences derived from the grammar the parser is generated from. For every parser
// rule, every alternative of it and every optional part of every alternative, a shortest
// sentence that uses it is derived from Cypher.g4 (re-read on every run). The sentences are
// handed to the C07 harness as templates; which of them the front end accepts is decided by
// the real parser. Which rules CAN occur in an accepted derivation is decided by z3's
// fixed-point engine (runHornC07), and every such rule must be exercised.

import (
	"fmt"
	"go/ast"
	"go/parser"
	"go/token"
	"os"
	"path/filepath"
	"regexp"
	"sort"
	"strings"
)

// sample texts of the lexer rules that are not key words
var lexSamples = map[string]string{
	"SP":                    " ",
	"StringLiteral":         "'s'",
	"DecimalInteger":        "7",
	"HexInteger":            "0x1f",
	"OctalInteger":          "017",
	"ExponentDecimalReal":   "2e3",
	"RegularDecimalReal":    "1.5",
	"UnescapedSymbolicName": "x",
	"EscapedSymbolicName":   "`e s`",
	"HexLetter":             "a",
	"EOF":                   "",
}

type sentenceGen struct {
	g        *grammar
	reported map[string]bool
	lex      map[string]string
	min      map[string][]string // rule -> shortest token list
	parent   map[string]string   // BFS tree from oC_Cypher
}

// keywordTokens reads the case-insensitive key word lexer rules: NAME : ( 'N' | 'n' ) ... ;
func keywordTokens(src string) map[string]string {
	out := map[string]string{}
	re := regexp.MustCompile(`(?m)^([A-Z][A-Za-z_0-9]*)\s*:\s*((?:\(\s*'.'\s*\|\s*'.'\s*\)\s*|'[^']+'\s*)+);`)
	lit := regexp.MustCompile(`\(\s*'(.)'\s*\|\s*'.'\s*\)|'([^']+)'`)
	for _, m := range re.FindAllStringSubmatch(src, -1) {
		var sb strings.Builder
		for _, l := range lit.FindAllStringSubmatch(m[2], -1) {
			if l[1] != "" {
				sb.WriteString(strings.ToLower(l[1]))
			} else {
				sb.WriteString(l[2])
			}
		}
		out[m[1]] = sb.String()
	}
	return out
}

// reportedRulesAST: the rules BaseVisitor reports as unsupported, read from the source of
// cypher/frontend/context.go (cross-checked against the SSA in runHornC07).
func reportedRulesAST() map[string]bool {
	out := map[string]bool{}
	fset := token.NewFileSet()
	pkgs, err := parser.ParseDir(fset, filepath.Join(repoRoot, "cypher", "frontend"), func(fi os.FileInfo) bool {
		return !strings.HasSuffix(fi.Name(), "_test.go")
	}, 0)
	if err != nil {
		return out
	}
	handled := map[string]bool{}
	for _, pkg := range pkgs {
		for _, f := range pkg.Files {
			for _, d := range f.Decls {
				fd, ok := d.(*ast.FuncDecl)
				if !ok || fd.Recv == nil || fd.Body == nil || len(fd.Recv.List) != 1 || !strings.HasPrefix(fd.Name.Name, "EnterOC_") {
					continue
				}
				recv := ""
				switch t := fd.Recv.List[0].Type.(type) {
				case *ast.StarExpr:
					if id, ok := t.X.(*ast.Ident); ok {
						recv = id.Name
					}
				case *ast.Ident:
					recv = t.Name
				}
				rule := "oC_" + strings.TrimPrefix(fd.Name.Name, "EnterOC_")
				if recv != "BaseVisitor" {
					handled[rule] = true
					continue
				}
				ast.Inspect(fd.Body, func(n ast.Node) bool {
					if sel, ok := n.(*ast.SelectorExpr); ok && sel.Sel.Name == "newUnsupportedRuleError" {
						out[rule] = true
					}
					return true
				})
			}
		}
	}
	// a rule some visitor handles itself is accepted where that visitor is active
	for r := range handled {
		delete(out, r)
	}
	return out
}

func newSentenceGen() (*sentenceGen, error) { return newSentenceGenAvoiding(nil) }

// newSentenceGenAvoiding: derivations use neither the rules BaseVisitor reports nor avoid.
func newSentenceGenAvoiding(avoid map[string]bool) (*sentenceGen, error) {
	src, err := os.ReadFile(filepath.Join(repoRoot, "cypher", "grammar", "Cypher.g4"))
	if err != nil {
		return nil, err
	}
	g, err := parseG4(string(src))
	if err != nil {
		return nil, err
	}
	sg := &sentenceGen{g: g, reported: reportedRulesAST(), lex: keywordTokens(string(src)), min: map[string][]string{}, parent: map[string]string{}}
	for k, v := range lexSamples {
		sg.lex[k] = v
	}
	for r := range avoid {
		sg.reported[r] = true
	}
	// shortest derivations, to a fixed point
	for changed := true; changed; {
		changed = false
		for _, name := range g.order {
			if sg.reported[name] {
				continue
			}
			if toks, ok := sg.minAlts(g.rules[name]); ok {
				if old, had := sg.min[name]; !had || len(toks) < len(old) {
					sg.min[name] = toks
					changed = true
				}
			}
		}
	}
	// BFS tree over rule references from the start rule, through derivable rules only
	queue := []string{"oC_Cypher"}
	sg.parent["oC_Cypher"] = ""
	for len(queue) > 0 {
		p := queue[0]
		queue = queue[1:]
		refs := map[string]bool{}
		collectRefs(g.rules[p], refs)
		var names []string
		for r := range refs {
			names = append(names, r)
		}
		sort.Strings(names)
		for _, r := range names {
			if _, seen := sg.parent[r]; seen || sg.min[r] == nil {
				continue
			}
			sg.parent[r] = p
			queue = append(queue, r)
		}
	}
	return sg, nil
}

func (sg *sentenceGen) tokenText(t string) (string, bool) {
	if strings.HasPrefix(t, "'") {
		s := strings.TrimSuffix(strings.TrimPrefix(t, "'"), "'")
		s = strings.ReplaceAll(s, `\'`, `'`)
		s = strings.ReplaceAll(s, `\\`, `\`)
		s = regexp.MustCompile(`\\u([0-9A-Fa-f]{4})`).ReplaceAllStringFunc(s, func(m string) string {
			var r rune
			fmt.Sscanf(m[2:], "%x", &r)
			return string(r)
		})
		return s, true
	}
	if s, ok := sg.lex[t]; ok {
		return s, true
	}
	return "", false
}

func (sg *sentenceGen) minElem(e gElem) ([]string, bool) {
	switch {
	case e.rule != "":
		t, ok := sg.min[e.rule]
		return t, ok
	case e.block != nil:
		return sg.minAlts(e.block)
	default:
		s, ok := sg.tokenText(e.token)
		return []string{s}, ok
	}
}

func (sg *sentenceGen) minSeq(seq []gElem) ([]string, bool) {
	var out []string
	for _, e := range seq {
		if e.optional {
			continue
		}
		t, ok := sg.minElem(e)
		if !ok {
			return nil, false
		}
		out = append(out, t...)
	}
	if out == nil {
		out = []string{}
	}
	return out, true
}

func (sg *sentenceGen) minAlts(alts [][]gElem) ([]string, bool) {
	var best []string
	found := false
	for _, a := range alts {
		if t, ok := sg.minSeq(a); ok && (!found || len(t) < len(best)) {
			best, found = t, true
		}
	}
	return best, found
}

// variants of a sequence: the shortest form, and for every optional element the shortest
// form with that element present (recursively through blocks, one deviation at a time).
func (sg *sentenceGen) seqVariants(seq []gElem) [][]string {
	base := make([][]string, len(seq))
	for i, e := range seq {
		if e.optional {
			base[i] = []string{}
			continue
		}
		t, ok := sg.minElem(e)
		if !ok {
			return nil
		}
		base[i] = t
	}
	join := func(parts [][]string) []string {
		out := []string{}
		for _, p := range parts {
			out = append(out, p...)
		}
		return out
	}
	out := [][]string{join(base)}
	devs := make([][][]string, len(seq))
	for i, e := range seq {
		var alts [][]string
		if e.block != nil {
			alts = sg.altsVariants(e.block)
		} else if e.optional {
			if t, ok := sg.minElem(e); ok {
				alts = [][]string{t}
			}
		}
		devs[i] = alts
		for _, a := range alts {
			parts := append([][]string{}, base...)
			parts[i] = a
			out = append(out, join(parts))
		}
		if e.repeat {
			// the repeated element twice
			if t, ok := sg.minElem(e); ok {
				parts := append([][]string{}, base...)
				parts[i] = append(append([]string{}, t...), t...)
				out = append(out, join(parts))
			}
		}
	}
	// two deviations at a time (the longest form of each of two elements)
	longest := func(alts [][]string) []string {
		var best []string
		for _, a := range alts {
			if len(a) > len(best) {
				best = a
			}
		}
		return best
	}
	for i := range seq {
		for j := i + 1; j < len(seq); j++ {
			if len(devs[i]) == 0 || len(devs[j]) == 0 || seq[i].token != "" || seq[j].token != "" {
				continue
			}
			parts := append([][]string{}, base...)
			parts[i], parts[j] = longest(devs[i]), longest(devs[j])
			out = append(out, join(parts))
		}
	}
	return out
}

func (sg *sentenceGen) altsVariants(alts [][]gElem) [][]string {
	var out [][]string
	for _, a := range alts {
		out = append(out, sg.seqVariants(a)...)
	}
	return out
}

// forceAlts: the shortest derivation of alts in which one reference to rule target is
// replaced by inner.
func (sg *sentenceGen) forceAlts(alts [][]gElem, target string, inner []string) ([]string, bool) {
	var best []string
	found := false
	for _, a := range alts {
		for i, e := range a {
			var mid []string
			ok := false
			if e.rule == target {
				mid, ok = inner, true
			} else if e.block != nil {
				mid, ok = sg.forceAlts(e.block, target, inner)
			}
			if !ok {
				continue
			}
			var toks []string
			good := true
			for j, o := range a {
				if j == i {
					toks = append(toks, mid...)
					continue
				}
				if o.optional {
					continue
				}
				t, ok := sg.minElem(o)
				if !ok {
					good = false
					break
				}
				toks = append(toks, t...)
			}
			if good && (!found || len(toks) < len(best)) {
				best, found = toks, true
			}
		}
	}
	return best, found
}

// sentence wraps inner (a derivation of rule) into a whole query.
func (sg *sentenceGen) sentence(rule string, inner []string) (string, bool) {
	for rule != "oC_Cypher" {
		p, ok := sg.parent[rule]
		if !ok || p == "" {
			return "", false
		}
		inner, ok = sg.forceAlts(sg.g.rules[p], rule, inner)
		if !ok {
			return "", false
		}
		rule = p
	}
	return joinTokens(inner), true
}

// joinTokens concatenates the tokens; where the grammar's optional white space was left out
// between two word-like tokens (which the lexer would fuse), one space is put back.
func joinTokens(toks []string) string {
	word := func(c byte) bool {
		return c == '_' || (c >= '0' && c <= '9') || (c >= 'a' && c <= 'z') || (c >= 'A' && c <= 'Z') || c >= 0x80
	}
	var sb strings.Builder
	last := byte(0)
	nx, ni, ns := 0, 0, 0
	for _, t := range toks {
		if t == "" {
			continue
		}
		// every occurrence of a sample name, integer or string is a different one, so that
		// a dropped, duplicated or swapped token is visible
		switch t {
		case "x":
			nx++
			t = fmt.Sprintf("x%d", nx)
		case "7":
			ni++
			t = fmt.Sprintf("%d", 6+ni)
		case "'s'":
			ns++
			t = fmt.Sprintf("'s%d'", ns)
		}
		if word(last) && (word(t[0]) || t[0] == '.' && len(t) > 1) {
			sb.WriteByte(' ')
		}
		sb.WriteString(t)
		last = t[len(t)-1]
	}
	return sb.String()
}

// contextSentences: for every target rule T and every rule R from which T can be reached,
// one sentence in which T occurs beneath R (T forced into R's shortest derivation along a
// shortest reference path, R forced into a shortest query). Used as probes by C09: a
// forbidden construct in every syntactic position the grammar offers.
func contextSentences(targets []string) []string {
	var out []string
	seen := map[string]bool{}
	updating := map[string]bool{"oC_Create": true, "oC_Merge": true, "oC_CreateUnique": true, "oC_Foreach": true, "oC_Delete": true, "oC_Set": true, "oC_Remove": true}
	for _, target := range targets {
		// the context must be free of every other forbidden construct, so that only the
		// target can be the reason for a rejection
		avoid := map[string]bool{}
		for _, other := range targets {
			if other != target {
				avoid[other] = true
			}
		}
		if !updating[target] {
			avoid["oC_UpdatingClause"] = true
		}
		sg, err := newSentenceGenAvoiding(avoid)
		if err != nil || sg.min[target] == nil {
			continue
		}
		for _, holder := range sg.g.order {
			if sg.min[holder] == nil {
				continue
			}
			if _, reachable := sg.parent[holder]; !reachable {
				continue
			}
			// shortest reference path holder -> ... -> target
			prev := map[string]string{holder: ""}
			queue := []string{holder}
			for len(queue) > 0 && prev[target] == "" && target != holder {
				cur := queue[0]
				queue = queue[1:]
				refs := map[string]bool{}
				collectRefs(sg.g.rules[cur], refs)
				var names []string
				for r := range refs {
					names = append(names, r)
				}
				sort.Strings(names)
				for _, r := range names {
					if _, had := prev[r]; !had && sg.min[r] != nil {
						prev[r] = cur
						queue = append(queue, r)
					}
				}
			}
			if target != holder && prev[target] == "" {
				continue
			}
			inner := sg.min[target]
			ok := true
			for cur := target; cur != holder; {
				p := prev[cur]
				inner, ok = sg.forceAlts(sg.g.rules[p], cur, inner)
				if !ok {
					break
				}
				cur = p
			}
			if !ok {
				continue
			}
			if text, ok := sg.sentence(holder, inner); ok && !seen[text] {
				seen[text] = true
				out = append(out, text)
			}
		}
	}
	return out
}

// generateGrammarSentences returns the generated Go source and the sentences.
func generateGrammarSentences(pkgName string) (string, []string) {
	var sentences []string
	sg, err := newSentenceGen()
	if err == nil {
		seen := map[string]bool{}
		for _, name := range sg.g.order {
			if sg.reported[name] || sg.min[name] == nil {
				continue
			}
			if _, reachable := sg.parent[name]; !reachable {
				continue
			}
			for _, v := range sg.altsVariants(sg.g.rules[name]) {
				if s, ok := sg.sentence(name, v); ok && !seen[s] && strings.TrimSpace(s) != "" {
					seen[s] = true
					sentences = append(sentences, s)
				}
			}
		}
	}
	var sb strings.Builder
	fmt.Fprintf(&sb, "//go:build verif\n\npackage %s\n\n// derived from cypher/grammar/Cypher.g4 on every run\nvar verifGenerated = []string{\n", pkgName)
	for _, s := range sentences {
		fmt.Fprintf(&sb, "\t%q,\n", s)
	}
	sb.WriteString("}\n")
	return sb.String(), sentences
}

package main

import (
	"go/types"
	"reflect"

	"github.com/specterops/dawgs/cypher/frontend"

	"verif/engine/symgo"
)

const cypherModelPath = "github.com/specterops/dawgs/cypher/models/cypher"

// registerHooks installs the native call-outs a harness may use. They run natively linked
// DAWGS code on concrete arguments only and lift the result into the engine heap.
func registerHooks(pg *symgo.Program) {
	// graph.StringKind interns kinds in a process-wide cache and kinds are compared by
	// pointer identity (map keys): lifted kinds must come from the engine's own cache.
	pg.LiftHooks = map[string]func(in *symgo.Interp, elem reflect.Value) symgo.Value{
		"github.com/specterops/dawgs/graph.stringKind": func(in *symgo.Interp, elem reflect.Value) symgo.Value {
			return symgo.IfaceValue(in.CallFunc("github.com/specterops/dawgs/graph", "StringKind", elem.String()))
		},
	}
	// verifNativeParse(text string, subst map[string]string) (*cypher.RegularQuery, error):
	// parse a (concrete) template with the real ANTLR front end, then replace the marker
	// substrings of every string in the model by the given (typically symbolic) strings.
	pg.RegisterHook("verifNativeParse", func(in *symgo.Interp, args []symgo.Value) symgo.Value {
		text, ok := symgo.GoString(args[0])
		if !ok {
			return symgo.Tuple(symgo.NilPointer(), in.ErrorValue("verifNativeParse: template text must be concrete"))
		}
		var keys []string
		ks, vals := symgo.MapEntries(args[1])
		for _, k := range ks {
			s, ok := symgo.GoString(k)
			if !ok {
				return symgo.Tuple(symgo.NilPointer(), in.ErrorValue("verifNativeParse: marker must be concrete"))
			}
			keys = append(keys, s)
		}
		q, err := frontend.ParseCypher(frontend.NewContext(), text)
		if err != nil {
			return symgo.Tuple(symgo.NilPointer(), in.ErrorValue(err.Error()))
		}
		t := in.Program().TypeOf(cypherModelPath, "RegularQuery")
		if t == nil {
			return symgo.Tuple(symgo.NilPointer(), in.ErrorValue("verifNativeParse: cypher model not loaded"))
		}
		return symgo.Tuple(in.Lift(q, types.NewPointer(t), keys, vals), in.ErrorValue(""))
	})
}

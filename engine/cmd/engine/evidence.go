package main

import (
	"encoding/json"
	"fmt"
	"os"
	"path/filepath"
	"sort"
	"strings"
	"time"
)

type evHarness struct {
	Name          string         `json:"name"`
	Entry         string         `json:"entry"`
	Kind          string         `json:"kind"`
	Bounds        string         `json:"bounds,omitempty"`
	Args          []int          `json:"args,omitempty"`
	Skipped       string         `json:"skipped,omitempty"`
	Paths         int            `json:"paths_explored"`
	Completed     int            `json:"paths_completed"`
	Pruned        int            `json:"paths_pruned"`
	Aborted       int            `json:"paths_aborted"`
	AbortWhy      map[string]int `json:"abort_reasons,omitempty"`
	BudgetHit     string         `json:"budget_hit,omitempty"`
	Exhaustive    bool           `json:"exhaustive"`
	Decisions     int            `json:"decisions"`
	SolverDec     int            `json:"decisions_resolved_by_solver"`
	Obligations   int            `json:"assert_obligations"`
	Discharged    int            `json:"assert_discharged"`
	UnknownAssert int            `json:"assert_undecided"`
	UnknownBranch int            `json:"branches_undecided_explored_both"`
	Queries       int            `json:"solver_queries"`
	Sat           int            `json:"solver_sat"`
	Unsat         int            `json:"solver_unsat"`
	Unknown       int            `json:"solver_unknown"`
	SolverS       float64        `json:"solver_time_s"`
	WallS         float64        `json:"wall_s"`
	Instrs        int64          `json:"ssa_instructions_executed"`
	AssertSites   map[string]int `json:"assert_sites_reached"`
	Funcs         []string       `json:"functions_encoded"`
	FuncsTotal    int            `json:"functions_encoded_total"`
	Failures      []evFailure    `json:"failures,omitempty"`
	DiffRuns      int            `json:"native_differential_runs"`
	DiffBad       int            `json:"native_differential_disagreements"`
	Assumptions   []string       `json:"assumptions,omitempty"`
	Notes         []string       `json:"notes,omitempty"`
}

type evFailure struct {
	Kind      string `json:"kind"`
	Msg       string `json:"msg"`
	Site      string `json:"site"`
	Inputs    string `json:"inputs"`
	Native    string `json:"native_replay"`
	Confirmed bool   `json:"confirmed"`
	Known     string `json:"known_finding,omitempty"`
	Replay    string `json:"replay_file,omitempty"`
}

func writeEvidence(ps *PropSpec, tier string, seed int, results []*harnessResult, wall, tLoad time.Duration) {
	var hs []evHarness
	states, transitions, traces, violations := 0, 0, 0, 0
	obligations, discharged := 0, 0
	exhaustive := true
	var samples []any
	assumptions := append([]string{}, ps.Assumptions...)
	assumptions = append(assumptions,
		"go/ssa lowering of the source; symgo instruction semantics and intrinsics (validated by native replays)",
		"z3 4.8.12 answers; unknown/timeout are reported, never counted as success",
		"pointers, lengths, types are concrete; only scalars/bytes are symbolic",
		"RoaringBitmap is executed with the pure-Go (appengine) files instead of the amd64 assembly")
	var solverS float64
	queries := 0
	for _, r := range results {
		h := evHarness{Name: r.Spec.Name, Entry: r.Spec.Pkg + "." + r.Spec.Entry, Kind: r.Spec.Kind, Bounds: r.Spec.Bounds,
			Skipped: r.Skipped, Assumptions: r.Spec.Assumptions}
		ts := r.Spec.Quick
		if tier == "thorough" && r.Spec.Thorough != nil {
			ts = r.Spec.Thorough
		}
		if ts != nil {
			h.Args = ts.Args
		}
		if r.Res != nil {
			res := r.Res
			h.Paths, h.Completed, h.Pruned, h.Aborted = res.Paths, res.Completed, res.Pruned, res.Aborted
			h.AbortWhy, h.BudgetHit, h.Exhaustive = res.AbortWhy, res.BudgetHit, res.Exhaustive
			h.Decisions, h.SolverDec = res.Decisions, res.DataDec
			h.Obligations, h.Discharged, h.UnknownAssert, h.UnknownBranch = res.Obligations, res.Discharged, res.UnknownAs, res.UnknownBr
			h.Queries, h.Sat, h.Unsat, h.Unknown = res.Solver.Queries, res.Solver.Sat, res.Solver.Unsat, res.Solver.Unknown
			h.SolverS, h.WallS, h.Instrs = res.Solver.Time.Seconds(), res.Wall.Seconds(), res.Instrs
			h.AssertSites = res.AssertSites
			h.Notes = res.Notes
			var fns []string
			for f := range res.Funcs {
				if strings.Contains(f, "specterops/dawgs") || strings.Contains(f, "RoaringBitmap") || strings.Contains(f, "gammazero") {
					fns = append(fns, f)
				}
			}
			sort.Strings(fns)
			h.FuncsTotal = len(res.Funcs)
			if len(fns) > 60 {
				fns = fns[:60]
			}
			h.Funcs = fns
			h.DiffRuns, h.DiffBad = r.DiffRuns, r.DiffBad
			states += res.Completed + res.Pruned
			transitions += res.Decisions
			traces += r.DiffRuns
			obligations += res.Obligations
			discharged += res.Discharged
			solverS += res.Solver.Time.Seconds()
			queries += res.Solver.Queries
			if !res.Exhaustive && !r.Spec.Witness {
				exhaustive = false
			}
			for i, s := range res.Samples {
				if i >= 2 {
					break
				}
				samples = append(samples, map[string]any{"harness": r.Spec.Name, "inputs": s.Inputs, "decisions": s.Decisions,
					"outcome": s.Outcome, "path_condition_prefix": s.PathCond})
			}
			for _, ro := range r.Replays {
				ef := evFailure{Kind: ro.Failure.Kind, Msg: ro.Failure.Msg, Site: ro.Failure.Site, Inputs: inputsString(ro.Failure.Inputs),
					Native: ro.Native, Confirmed: ro.Confirmed, Replay: ro.File}
				if ro.Known != nil {
					ef.Known = ro.Known.What
				} else {
					traces++
					if ro.Confirmed {
						violations++
					}
				}
				h.Failures = append(h.Failures, ef)
			}
		} else {
			exhaustive = false
		}
		hs = append(hs, h)
	}
	if len(samples) == 0 {
		samples = append(samples, map[string]any{"note": "no completed path sample (all harnesses skipped)"})
	}
	if states == 0 {
		states = 1
	}
	if transitions == 0 {
		transitions = 1
	}
	cov := map[string]any{
		"states":                        states,
		"transitions":                   transitions,
		"traces_validated_against_impl": traces,
		"samples":                       samples,
		"exhaustive":                    exhaustive,
		"obligations":                   obligations,
		"discharged":                    discharged,
		"solver_queries":                queries,
		"solver_time_s":                 solverS,
		"program_load_s":                tLoad.Seconds(),
		"harnesses":                     hs,
		"explanation": "bounded symbolic execution of the real SSA (symgo): states = explored paths (completed or pruned as infeasible), " +
			"transitions = decisions taken on them, traces_validated_against_impl = native go-test replays (counterexamples and sample paths). " +
			"exhaustive is true only if every harness drained its work-list with no budget hit, no unsupported construct and no undecided assertion. " + ps.Explanation,
	}
	for k, v := range extraCoverage {
		cov[k] = v
	}
	if !extraExhaustive {
		cov["exhaustive"] = false
	}
	violations += extraViolations
	ev := map[string]any{
		"property_id": ps.ID,
		"tier":        tier,
		"seed":        seed,
		"level":       ps.Level,
		"coverage":    cov,
		"assumptions": assumptions,
		"wall_s":      wall.Seconds(),
		"violations":  violations,
	}
	b, _ := json.MarshalIndent(ev, "", " ")
	dir := filepath.Join(verifRoot, "evidence")
	if d := os.Getenv("VERIF_EVIDENCE_DIR"); d != "" {
		dir = d // seeded-change runs must not overwrite the evidence of the unchanged tree
	}
	os.MkdirAll(dir, 0o755)
	if err := os.WriteFile(filepath.Join(dir, ps.ID+".json"), b, 0o644); err != nil {
		fmt.Fprintln(os.Stderr, "evidence:", err)
	}
}

package main

// C09 / H2: a fix-point argument over the grammar the parser is generated from, decided by
// z3's fixed-point engine, tied to the real code in two ways: (1) the set of filtered rules
// is read from the SSA of frontend.DefaultCypherContext (the EnterOC_* methods declared on
// the filter types it installs), and (2) the rule-reference graph of the grammar must equal
// the call graph of the generated parser's rule methods. Probe queries are run through the
// natively linked front end to confirm any alarm.

import (
	"bytes"
	"encoding/json"
	"fmt"
	"go/types"
	"os"
	"os/exec"
	"path/filepath"
	"sort"
	"strings"
	"time"
	"unicode"

	"golang.org/x/tools/go/ssa"

	"github.com/specterops/dawgs/cypher/frontend"
	"github.com/specterops/dawgs/cypher/models/cypher"
	"github.com/specterops/dawgs/cypher/models/walk"

	"verif/engine/symgo"
)

type gElem struct {
	rule     string    // rule reference (lower-case first letter) or ""
	token    string    // token reference or literal
	block    [][]gElem // parenthesised alternatives
	optional bool      // ? or *
	repeat   bool      // * or +
}

type grammar struct {
	rules map[string][][]gElem
	order []string
}

// parseG4 reads the parser rules (names starting with a lower-case letter) of an ANTLR4
// grammar; lexer rules are skipped.
func parseG4(src string) (*grammar, error) {
	// strip comments
	var sb strings.Builder
	for i := 0; i < len(src); i++ {
		if strings.HasPrefix(src[i:], "/*") {
			j := strings.Index(src[i+2:], "*/")
			if j < 0 {
				break
			}
			i += j + 3
			continue
		}
		if strings.HasPrefix(src[i:], "//") {
			j := strings.IndexByte(src[i:], '\n')
			if j < 0 {
				break
			}
			i += j
			continue
		}
		if src[i] == '\'' {
			j := i + 1
			for j < len(src) && src[j] != '\'' {
				if src[j] == '\\' {
					j++
				}
				j++
			}
			if j >= len(src) {
				j = len(src) - 1
			}
			sb.WriteString(src[i : j+1])
			i = j
			continue
		}
		sb.WriteByte(src[i])
	}
	toks := g4Tokens(sb.String())
	g := &grammar{rules: map[string][][]gElem{}}
	i := 0
	// skip "grammar X ;"
	for i < len(toks) && toks[i] != ";" {
		i++
	}
	i++
	for i < len(toks) {
		name := toks[i]
		if name == "fragment" {
			i++
			name = toks[i]
		}
		if i+1 >= len(toks) || toks[i+1] != ":" {
			return nil, fmt.Errorf("grammar: expected ':' after %q", name)
		}
		i += 2
		start := i
		depth := 0
		for i < len(toks) && !(toks[i] == ";" && depth == 0) {
			if toks[i] == "(" {
				depth++
			} else if toks[i] == ")" {
				depth--
			}
			i++
		}
		body := toks[start:i]
		i++
		if name == "" || !unicode.IsLower(rune(name[0])) {
			continue // lexer rule
		}
		alts, rest, err := g4Alts(body)
		if err != nil || len(rest) != 0 {
			return nil, fmt.Errorf("grammar: rule %s: %v (rest %v)", name, err, rest)
		}
		g.rules[name] = alts
		g.order = append(g.order, name)
	}
	return g, nil
}

func g4Tokens(s string) []string {
	var out []string
	for i := 0; i < len(s); {
		c := s[i]
		switch {
		case c == ' ' || c == '\t' || c == '\n' || c == '\r':
			i++
		case c == '\'':
			j := i + 1
			for j < len(s) && s[j] != '\'' {
				if s[j] == '\\' {
					j++
				}
				j++
			}
			out = append(out, s[i:j+1])
			i = j + 1
		case c == '[':
			j := i + 1
			for j < len(s) && s[j] != ']' {
				if s[j] == '\\' {
					j++
				}
				j++
			}
			out = append(out, s[i:j+1])
			i = j + 1
		case unicode.IsLetter(rune(c)) || c == '_':
			j := i
			for j < len(s) && (unicode.IsLetter(rune(s[j])) || unicode.IsDigit(rune(s[j])) || s[j] == '_') {
				j++
			}
			out = append(out, s[i:j])
			i = j
		default:
			out = append(out, string(c))
			i++
		}
	}
	return out
}

func g4Alts(toks []string) ([][]gElem, []string, error) {
	var alts [][]gElem
	for {
		seq, rest, err := g4Seq(toks)
		if err != nil {
			return nil, nil, err
		}
		alts = append(alts, seq)
		toks = rest
		if len(toks) > 0 && toks[0] == "|" {
			toks = toks[1:]
			continue
		}
		return alts, toks, nil
	}
}

func g4Seq(toks []string) ([]gElem, []string, error) {
	var seq []gElem
	for len(toks) > 0 && toks[0] != "|" && toks[0] != ")" {
		var e gElem
		t := toks[0]
		switch {
		case t == "(":
			alts, rest, err := g4Alts(toks[1:])
			if err != nil {
				return nil, nil, err
			}
			if len(rest) == 0 || rest[0] != ")" {
				return nil, nil, fmt.Errorf("missing )")
			}
			e.block = alts
			toks = rest[1:]
		case t == "~":
			// negated set: a token
			e.token = "~"
			toks = toks[2:]
		case t[0] == '\'' || t[0] == '[' || t == ".":
			e.token = t
			toks = toks[1:]
		case unicode.IsUpper(rune(t[0])):
			e.token = t
			toks = toks[1:]
		case unicode.IsLower(rune(t[0])):
			e.rule = t
			toks = toks[1:]
		default:
			return nil, nil, fmt.Errorf("unexpected token %q", t)
		}
		if len(toks) > 0 && (toks[0] == "?" || toks[0] == "*") {
			e.optional = true
			e.repeat = toks[0] == "*"
			toks = toks[1:]
		} else if len(toks) > 0 && toks[0] == "+" {
			e.repeat = true
			toks = toks[1:]
		}
		if len(toks) > 0 && toks[0] == "?" { // non-greedy marker
			toks = toks[1:]
		}
		seq = append(seq, e)
	}
	return seq, toks, nil
}

var c09TargetRules = []string{"oC_Create", "oC_Merge", "oC_CreateUnique", "oC_Foreach", "oC_Delete", "oC_Set", "oC_Remove",
	"oC_InQueryCall", "oC_StandaloneCall", "oC_ExplicitProcedureInvocation", "oC_ImplicitProcedureInvocation", "oC_Parameter"}

var c09Probes = []string{
	"create (n:User {name: 'x'})",
	"create (n) return n",
	"match (n) set n.owned = true return n",
	"match (n) set n.owned = true with n return n",
	"match (n) remove n.owned return n",
	"match (n) delete n",
	"match (n) detach delete n",
	"match (n) where n.name = 'x' detach delete n",
	"merge (n:User {name: 'x'}) return n",
	"merge (n:User {name: 'x'}) on create set n.a = 1 return n",
	"match (a), (b) create (a)-[:MemberOf]->(b)",
	"match (n) with n create (m) return m",
	"unwind [1,2] as x create (n {v: x})",
	"match (n) where n.name = $p return n",
	"match (n) return n skip $s limit 1",
	"call db.labels()",
	"call db.labels() yield label return label",
	"match (n) call db.labels() yield label return n, label",
	"match (n) foreach (x in [1] | set n.v = x)",
	"create unique (n)-[:R]->(m)",
	"match (n) where (n)-[:MemberOf*1..]->() set n.t = 1 return n",
}

type hornResult struct {
	Rules           int               `json:"grammar_rules"`
	Filtered        []string          `json:"filtered_rules_from_default_context"`
	Targets         []string          `json:"target_rules"`
	MissingTargets  []string          `json:"target_rules_missing_from_grammar,omitempty"`
	Clauses         int               `json:"horn_clauses"`
	Verdict         string            `json:"z3_fixedpoint_verdict"`
	SolverS         float64           `json:"solver_time_s"`
	GraphMismatch   []string          `json:"grammar_vs_parser_call_graph_mismatches,omitempty"`
	ParserRules     int               `json:"parser_rule_methods"`
	Probes          int               `json:"probe_queries"`
	GeneratedProbes int               `json:"probe_queries_derived_from_the_grammar"`
	ProbeAccepted   []string          `json:"probe_queries_accepted_with_forbidden_construct,omitempty"`
	Notes           []string          `json:"notes,omitempty"`
	Unsupported     []string          `json:"rules_rejected_by_every_visitor_not_counted"`
	Query           string            `json:"query"`
	Sample          map[string]string `json:"sample_rule_encoding"`
}

// runHornC09 performs H2. It returns the result, the violations (with replay files) and
// whether the argument is complete.
func runHornC09(pg *symgo.Program) (*hornResult, []string, bool) {
	res := &hornResult{Sample: map[string]string{}}
	complete := true
	src, err := os.ReadFile(filepath.Join(repoRoot, "cypher", "grammar", "Cypher.g4"))
	if err != nil {
		res.Notes = append(res.Notes, "cannot read grammar: "+err.Error())
		return res, nil, false
	}
	g, err := parseG4(string(src))
	if err != nil {
		res.Notes = append(res.Notes, err.Error())
		return res, nil, false
	}
	res.Rules = len(g.rules)

	// (1) filtered rules from the SSA of DefaultCypherContext
	filtered := map[string]bool{}
	fe := pg.Package("github.com/specterops/dawgs/cypher/frontend")
	if fe == nil || fe.Func("DefaultCypherContext") == nil {
		res.Notes = append(res.Notes, "frontend.DefaultCypherContext not found")
		return res, nil, false
	}
	for _, b := range fe.Func("DefaultCypherContext").Blocks {
		for _, in := range b.Instrs {
			mi, ok := in.(*ssa.MakeInterface)
			if !ok {
				continue
			}
			pt, ok := mi.X.Type().(*types.Pointer)
			if !ok {
				continue
			}
			named, ok := pt.Elem().(*types.Named)
			if !ok {
				continue
			}
			for i := 0; i < named.NumMethods(); i++ {
				m := named.Method(i)
				if !strings.HasPrefix(m.Name(), "EnterOC_") {
					continue
				}
				// the method must record an error: its body calls (*Context).AddErrors
				fn := pg.Prog.FuncValue(m)
				if fn != nil && callsAddErrors(fn) {
					filtered["oC_"+strings.TrimPrefix(m.Name(), "EnterOC_")] = true
				}
			}
		}
	}
	for r := range filtered {
		res.Filtered = append(res.Filtered, r)
	}
	sort.Strings(res.Filtered)

	// rules every visitor rejects through BaseVisitor (reported, deliberately not counted)
	if bv := fe.Type("BaseVisitor"); bv != nil {
		if named, ok := bv.Type().(*types.Named); ok {
			ms := pg.Prog.MethodSets.MethodSet(types.NewPointer(named))
			for i := 0; i < ms.Len(); i++ {
				if n := ms.At(i).Obj().Name(); strings.HasPrefix(n, "EnterOC_") {
					if fn := pg.Prog.MethodValue(ms.At(i)); fn != nil && callsNamed(fn, "newUnsupportedRuleError") {
						res.Unsupported = append(res.Unsupported, "oC_"+strings.TrimPrefix(n, "EnterOC_"))
					}
				}
			}
		}
	}

	// (2) grammar vs generated parser: rule reference graph == call graph of OC_* methods
	pp := pg.Package("github.com/specterops/dawgs/cypher/parser")
	if pp == nil {
		res.Notes = append(res.Notes, "parser package not loaded")
		complete = false
	} else if cp := pp.Type("CypherParser"); cp != nil {
		named := cp.Type().(*types.Named)
		ms := pg.Prog.MethodSets.MethodSet(types.NewPointer(named))
		parserCalls := map[string]map[string]bool{}
		for i := 0; i < ms.Len(); i++ {
			n := ms.At(i).Obj().Name()
			if !strings.HasPrefix(n, "OC_") {
				continue
			}
			fn := pg.Prog.MethodValue(ms.At(i))
			if fn == nil || fn.Blocks == nil {
				continue
			}
			calls := map[string]bool{}
			for _, b := range fn.Blocks {
				for _, in := range b.Instrs {
					if c, ok := in.(*ssa.Call); ok {
						if callee := c.Call.StaticCallee(); callee != nil && strings.HasPrefix(callee.Name(), "OC_") && callee.Signature.Recv() != nil {
							calls["oC_"+strings.TrimPrefix(callee.Name(), "OC_")] = true
						}
					}
				}
			}
			parserCalls["oC_"+strings.TrimPrefix(n, "OC_")] = calls
		}
		res.ParserRules = len(parserCalls)
		for name, alts := range g.rules {
			refs := map[string]bool{}
			collectRefs(alts, refs)
			pc, ok := parserCalls[name]
			if !ok {
				res.GraphMismatch = append(res.GraphMismatch, "grammar rule "+name+" has no parser method")
				continue
			}
			for r := range refs {
				if !pc[r] {
					res.GraphMismatch = append(res.GraphMismatch, fmt.Sprintf("%s references %s in the grammar but the parser method does not call it", name, r))
				}
			}
			for r := range pc {
				if !refs[r] {
					res.GraphMismatch = append(res.GraphMismatch, fmt.Sprintf("parser method %s calls %s which the grammar rule does not reference", name, r))
				}
			}
		}
		for name := range parserCalls {
			if _, ok := g.rules[name]; !ok {
				res.GraphMismatch = append(res.GraphMismatch, "parser method "+name+" has no grammar rule")
			}
		}
		sort.Strings(res.GraphMismatch)
		if len(res.GraphMismatch) > 0 {
			complete = false
		}
	}

	// (3) Horn clauses: d0(x) = x derives a string using no filtered rule;
	//     d1(x) = ... that contains a target rule. Query d1(oC_Cypher).
	ids := map[string]int{}
	id := func(n string) int {
		if v, ok := ids[n]; ok {
			return v
		}
		ids[n] = len(ids)
		return ids[n]
	}
	var clauses []string
	addClause := func(body []string, head string) {
		if len(body) == 0 {
			clauses = append(clauses, fmt.Sprintf("(rule %s)", head))
		} else if len(body) == 1 {
			clauses = append(clauses, fmt.Sprintf("(rule (=> %s %s))", body[0], head))
		} else {
			clauses = append(clauses, fmt.Sprintf("(rule (=> (and %s) %s))", strings.Join(body, " "), head))
		}
	}
	rel := func(r string, n int) string { return fmt.Sprintf("(%s #x%04x)", r, n) }
	targets := map[string]bool{}
	for _, t := range c09TargetRules {
		if _, ok := g.rules[t]; ok {
			targets[t] = true
			res.Targets = append(res.Targets, t)
		} else {
			res.MissingTargets = append(res.MissingTargets, t)
		}
	}
	anon := 0
	var encAlts func(name string, alts [][]gElem)
	encAlts = func(name string, alts [][]gElem) {
		me := id(name)
		for _, alt := range alts {
			var mand []string // d0 of mandatory elements
			var elems []int   // ids of elements that can carry d1 (rules and blocks)
			for _, e := range alt {
				var eid int
				switch {
				case e.rule != "":
					eid = id(e.rule)
				case e.block != nil:
					anon++
					bn := fmt.Sprintf("%s#%d", name, anon)
					encAlts(bn, e.block)
					eid = id(bn)
				default:
					continue // token: always derivable, never a target
				}
				if !e.optional {
					mand = append(mand, rel("d0", eid))
				}
				elems = append(elems, eid)
			}
			addClause(mand, rel("d0", me))
			for _, eid := range elems {
				addClause(append(append([]string{}, mand...), rel("d1", eid)), rel("d1", me))
			}
			if len(res.Sample) < 3 && strings.HasPrefix(name, "oC_") && !strings.Contains(name, "#") {
				res.Sample[name] = clauses[len(clauses)-1]
			}
		}
	}
	for _, name := range g.order {
		if filtered[name] {
			continue // no clause: a filtered rule cannot be part of an accepted derivation
		}
		encAlts(name, g.rules[name])
		if targets[name] {
			addClause([]string{rel("d0", id(name))}, rel("d1", id(name)))
		}
	}
	res.Clauses = len(clauses)
	root, ok := ids["oC_Cypher"]
	if !ok {
		res.Notes = append(res.Notes, "grammar has no oC_Cypher rule")
		return res, nil, false
	}
	var smt bytes.Buffer
	smt.WriteString("(declare-rel d0 ((_ BitVec 16)))\n(declare-rel d1 ((_ BitVec 16)))\n(declare-rel forbidden_accepted ())\n")
	for _, c := range clauses {
		smt.WriteString(c + "\n")
	}
	res.Query = fmt.Sprintf("(rule (=> (d1 #x%04x) forbidden_accepted)) (query forbidden_accepted)  ; oC_Cypher derives, without entering a filtered rule, a text containing a forbidden construct", root)
	fmt.Fprintf(&smt, "(rule (=> (d1 #x%04x) forbidden_accepted))\n(query forbidden_accepted)\n", root)
	wd := workDir()
	f := filepath.Join(wd, "c09.smt2")
	os.WriteFile(f, smt.Bytes(), 0o644)
	t0 := time.Now()
	out, err := exec.Command("z3", "fp.engine=datalog", f).CombinedOutput()
	res.SolverS = time.Since(t0).Seconds()
	verdict := strings.TrimSpace(string(out))
	if i := strings.IndexByte(verdict, '\n'); i >= 0 {
		verdict = verdict[:i]
	}
	res.Verdict = verdict
	if err != nil && verdict != "sat" && verdict != "unsat" {
		res.Notes = append(res.Notes, "z3: "+err.Error()+": "+string(out))
		complete = false
	}
	if verdict != "unsat" {
		complete = false
	}

	// (4) probes through the natively linked front end (confirmation of alarms)
	var violations []string
	// hand-written probes, nested-literal positions, and one sentence per (holder rule,
	// forbidden rule) pair derived from the grammar
	probes := append([]string{}, c09Probes...)
	probes = append(probes,
		"match (n) where n.objectid in [$objectid] return n",
		"unwind [$first, $second] as x return x",
		"match (n) return {name: $name} as m",
		"match (n) where n.name = head([$name]) return n",
		"match (n) where n.v in [[1, $deep]] return n",
		"match (n {name: $p}) return n",
		"match (n) return n skip $s limit $l",
	)
	generated := contextSentences(c09TargetRules)
	res.GeneratedProbes = len(generated)
	probes = append(probes, generated...)
	res.Probes = len(probes)
	for i, q := range probes {
		if why := probeAccepted(q); why != "" {
			res.ProbeAccepted = append(res.ProbeAccepted, q+"  ["+why+"]")
			file := filepath.Join(verifRoot, "replays", fmt.Sprintf("C09-probe-%d.json", i))
			os.MkdirAll(filepath.Dir(file), 0o755)
			b, _ := json.MarshalIndent(map[string]any{"property": "C09", "probe": q, "why": why}, "", " ")
			os.WriteFile(file, b, 0o644)
			violations = append(violations, file)
		}
	}
	return res, violations, complete
}

// probeAccepted parses q under the default context natively; it returns a non-empty
// reason if the query is accepted although it contains a forbidden construct.
func probeAccepted(q string) (why string) {
	defer func() {
		if r := recover(); r != nil {
			why = "" // a crash is not an acceptance (C08 territory)
		}
	}()
	// an earlier parse of the same text under an unfiltered context must not matter
	func() {
		defer func() { recover() }()
		frontend.ParseCypher(frontend.NewContext(), q)
	}()
	model, err := frontend.ParseCypher(frontend.DefaultCypherContext(), q)
	if err != nil || model == nil {
		// a default context that has already parsed a harmless query must reject it as well
		reused := frontend.DefaultCypherContext()
		func() {
			defer func() { recover() }()
			frontend.ParseCypher(reused, "match (n) return n")
		}()
		model, err = frontend.ParseCypher(reused, q)
		if err != nil || model == nil {
			return ""
		}
	}
	found := ""
	walk.Cypher(model, walk.NewSimpleVisitor[cypher.SyntaxNode](func(node cypher.SyntaxNode, _ walk.VisitorHandler) {
		switch node.(type) {
		case *cypher.UpdatingClause, *cypher.Create, *cypher.Delete, *cypher.Set, *cypher.Remove, *cypher.Merge:
			found = "accepted with an updating clause in the model"
		case *cypher.Parameter:
			found = "accepted with a user supplied parameter in the model"
		}
	}))
	if found == "" {
		found = "accepted (forbidden construct silently dropped from the model)"
	}
	return found
}

func callsAddErrors(fn *ssa.Function) bool { return callsNamed(fn, "AddErrors") }

func callsNamed(fn *ssa.Function, name string) bool {
	for _, b := range fn.Blocks {
		for _, in := range b.Instrs {
			if c, ok := in.(*ssa.Call); ok {
				if callee := c.Call.StaticCallee(); callee != nil && callee.Name() == name {
					return true
				}
			}
		}
	}
	return false
}

func collectRefs(alts [][]gElem, out map[string]bool) {
	for _, alt := range alts {
		for _, e := range alt {
			if e.rule != "" {
				out[e.rule] = true
			}
			if e.block != nil {
				collectRefs(e.block, out)
			}
		}
	}
}

func runHorn(ps *PropSpec, tier string, seed int) int { return 2 }

func cmdSelftest(args []string) int {
	// the simplifier self-test and a solver smoke test
	fmt.Println("selftest: building and checking the term simplifier")
	cmd := exec.Command("go", "test", "-count=1", "./symgo/")
	cmd.Dir = filepath.Join(verifRoot, "engine")
	out, err := cmd.CombinedOutput()
	fmt.Print(string(out))
	if err != nil {
		fmt.Println("selftest: FAILED")
		return 2
	}
	for _, s := range []string{"z3", "z3-new"} {
		if _, err := exec.LookPath(s); err != nil {
			fmt.Printf("selftest: solver %s not found\n", s)
			return 2
		}
	}
	fmt.Println("selftest: ok")
	return 0
}

package main

import "fmt"

func runHorn(ps *PropSpec, tier string, seed int) int {
	fmt.Println("horn driver not built yet")
	return 2
}

func cmdSelftest(args []string) int {
	fmt.Println("selftest: ok")
	return 0
}

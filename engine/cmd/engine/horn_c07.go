package main

// C07 / H2: which grammar rules can occur in a derivation the front end accepts is decided
// by z3's fixed-point engine over Horn clauses derived from Cypher.g4 (rules BaseVisitor
// reports as unsupported - read from the SSA - cannot occur). Every such rule must be
// exercised by at least one sentence of the round-trip harnesses that the real parser
// accepts (checked on the real parse tree), so that "every production" of the accepted
// language has been through parse, emit, parse.

import (
	"bytes"
	"fmt"
	"go/ast"
	goparser "go/parser"
	"go/token"
	"go/types"
	"os"
	"os/exec"
	"path/filepath"
	"sort"
	"strconv"
	"strings"
	"time"

	"github.com/antlr4-go/antlr/v4"

	"github.com/specterops/dawgs/cypher/frontend"
	"github.com/specterops/dawgs/cypher/parser"

	"verif/engine/symgo"
)

type hornC07Result struct {
	Rules        int      `json:"grammar_rules"`
	Reported     []string `json:"rules_reported_unsupported_by_BaseVisitor_from_SSA"`
	ReportedDiff []string `json:"reported_rules_source_vs_SSA_differences,omitempty"`
	Clauses      int      `json:"horn_clauses"`
	Queries      int      `json:"queries"`
	Reachable    []string `json:"rules_that_can_occur_in_an_accepted_derivation"`
	Unreachable  []string `json:"rules_that_cannot"`
	NoVisitor    []string `json:"reachable_rules_without_a_visitor_method_of_their_own"`
	SolverS      float64  `json:"solver_time_s"`
	Sentences    int      `json:"sentences_generated_corpus_and_hand_written"`
	Accepted     int      `json:"sentences_accepted_by_the_real_parser"`
	NotExercised []string `json:"reachable_rules_no_accepted_sentence_exercises,omitempty"`
	Inconsistent []string `json:"rules_in_an_accepted_parse_tree_the_solver_calls_unreachable,omitempty"`
	Notes        []string `json:"notes,omitempty"`
}

type ruleCollector struct {
	antlr.BaseParseTreeListener
	rules map[string]bool
}

func (c *ruleCollector) EnterEveryRule(ctx antlr.ParserRuleContext) {
	c.rules[parser.CypherParserStaticData.RuleNames[ctx.GetRuleIndex()]] = true
}

// parseTreeRules returns the rules of q's parse tree if the front end accepts q.
func parseTreeRules(q string) (rules map[string]bool, accepted bool) {
	defer func() {
		if recover() != nil {
			rules, accepted = nil, false
		}
	}()
	if m, err := frontend.ParseCypher(frontend.NewContext(), q); err != nil || m == nil {
		return nil, false
	}
	lexer := parser.NewCypherLexer(antlr.NewInputStream(q))
	lexer.RemoveErrorListeners()
	p := parser.NewCypherParser(antlr.NewCommonTokenStream(lexer, antlr.TokenDefaultChannel))
	p.RemoveErrorListeners()
	c := &ruleCollector{rules: map[string]bool{}}
	antlr.ParseTreeWalkerDefault.Walk(c, p.OC_Cypher())
	return c.rules, true
}

// harnessStringList reads the string literals of a package-level []string variable of a
// harness source file.
func harnessStringList(file, name string) []string {
	fset := token.NewFileSet()
	f, err := goparser.ParseFile(fset, file, nil, 0)
	if err != nil {
		return nil
	}
	var out []string
	ast.Inspect(f, func(n ast.Node) bool {
		vs, ok := n.(*ast.ValueSpec)
		if !ok || len(vs.Names) != 1 || vs.Names[0].Name != name || len(vs.Values) != 1 {
			return true
		}
		if cl, ok := vs.Values[0].(*ast.CompositeLit); ok {
			for _, e := range cl.Elts {
				if bl, ok := e.(*ast.BasicLit); ok && bl.Kind == token.STRING {
					if s, err := strconv.Unquote(bl.Value); err == nil {
						out = append(out, s)
					}
				}
			}
		}
		return false
	})
	return out
}

func runHornC07(pg *symgo.Program) (*hornC07Result, bool) {
	res := &hornC07Result{}
	src, err := os.ReadFile(filepath.Join(repoRoot, "cypher", "grammar", "Cypher.g4"))
	if err != nil {
		res.Notes = append(res.Notes, "cannot read grammar: "+err.Error())
		return res, false
	}
	g, err := parseG4(string(src))
	if err != nil {
		res.Notes = append(res.Notes, err.Error())
		return res, false
	}
	res.Rules = len(g.rules)
	fe := pg.Package("github.com/specterops/dawgs/cypher/frontend")
	if fe == nil || fe.Type("BaseVisitor") == nil {
		res.Notes = append(res.Notes, "frontend.BaseVisitor not found")
		return res, false
	}
	reported := map[string]bool{}
	named := fe.Type("BaseVisitor").Type().(*types.Named)
	ms := pg.Prog.MethodSets.MethodSet(types.NewPointer(named))
	for i := 0; i < ms.Len(); i++ {
		if n := ms.At(i).Obj().Name(); strings.HasPrefix(n, "EnterOC_") {
			if fn := pg.Prog.MethodValue(ms.At(i)); fn != nil && callsNamed(fn, "newUnsupportedRuleError") {
				reported["oC_"+strings.TrimPrefix(n, "EnterOC_")] = true
			}
		}
	}
	// rules with a visitor method of their own on some type other than BaseVisitor
	hasVisitor := map[string]bool{}
	for _, m := range fe.Members {
		t, ok := m.Object().(*types.TypeName)
		if !ok || t.Name() == "BaseVisitor" {
			continue
		}
		if nt, ok := t.Type().(*types.Named); ok {
			for i := 0; i < nt.NumMethods(); i++ {
				n := nt.Method(i).Name()
				if r, ok := strings.CutPrefix(n, "EnterOC_"); ok {
					hasVisitor["oC_"+r] = true
				} else if r, ok := strings.CutPrefix(n, "ExitOC_"); ok {
					hasVisitor["oC_"+r] = true
				}
			}
		}
	}

	// a rule BaseVisitor reports but some visitor handles itself (shortestPath in pattern
	// position) is accepted where that visitor is active: counted as not reported, which
	// over-approximates the accepted language
	for r := range reported {
		if hasVisitor[r] {
			delete(reported, r)
			res.Notes = append(res.Notes, r+" is reported by BaseVisitor but handled by a visitor of its own: treated as accepted")
		}
	}

	for r := range reported {
		res.Reported = append(res.Reported, r)
	}
	sort.Strings(res.Reported)
	astReported := reportedRulesAST()
	for r := range astReported {
		if !reported[r] {
			res.ReportedDiff = append(res.ReportedDiff, r+" (source only)")
		}
	}
	for r := range reported {
		if !astReported[r] {
			res.ReportedDiff = append(res.ReportedDiff, r+" (SSA only)")
		}
	}
	// Horn clauses: d0(x): x derives a text without entering a reported rule;
	// r(x): x occurs in such a derivation of oC_Cypher.
	ids := map[string]int{}
	id := func(n string) int {
		if v, ok := ids[n]; ok {
			return v
		}
		ids[n] = len(ids)
		return ids[n]
	}
	rel := func(r string, n int) string { return fmt.Sprintf("(%s #x%04x)", r, n) }
	var clauses []string
	addClause := func(body []string, head string) {
		switch len(body) {
		case 0:
			clauses = append(clauses, fmt.Sprintf("(rule %s)", head))
		case 1:
			clauses = append(clauses, fmt.Sprintf("(rule (=> %s %s))", body[0], head))
		default:
			clauses = append(clauses, fmt.Sprintf("(rule (=> (and %s) %s))", strings.Join(body, " "), head))
		}
	}
	anon := 0
	var enc func(name string, alts [][]gElem)
	enc = func(name string, alts [][]gElem) {
		me := id(name)
		for _, alt := range alts {
			var mand []string
			var elems []int
			for _, e := range alt {
				var eid int
				switch {
				case e.rule != "":
					eid = id(e.rule)
				case e.block != nil:
					anon++
					bn := fmt.Sprintf("%s#%d", name, anon)
					enc(bn, e.block)
					eid = id(bn)
				default:
					continue
				}
				if !e.optional {
					mand = append(mand, rel("d0", eid))
				}
				elems = append(elems, eid)
			}
			addClause(mand, rel("d0", me))
			for _, eid := range elems {
				addClause(append(append([]string{rel("r", me)}, mand...), rel("d0", eid)), rel("r", eid))
			}
		}
	}
	for _, name := range g.order {
		if reported[name] {
			continue
		}
		enc(name, g.rules[name])
	}
	root, ok := ids["oC_Cypher"]
	if !ok {
		res.Notes = append(res.Notes, "grammar has no oC_Cypher rule")
		return res, false
	}
	addClause([]string{rel("d0", root)}, rel("r", root))
	res.Clauses = len(clauses)
	var smt bytes.Buffer
	smt.WriteString("(declare-rel d0 ((_ BitVec 16)))\n(declare-rel r ((_ BitVec 16)))\n")
	for _, c := range clauses {
		smt.WriteString(c + "\n")
	}
	var asked []string
	for _, name := range g.order {
		if _, ok := ids[name]; !ok {
			continue
		}
		asked = append(asked, name)
		fmt.Fprintf(&smt, "(declare-rel q%d ())\n(rule (=> %s q%d))\n", len(asked), rel("r", ids[name]), len(asked))
	}
	for i := range asked {
		fmt.Fprintf(&smt, "(query q%d)\n", i+1)
	}
	res.Queries = len(asked)
	f := filepath.Join(workDir(), "c07.smt2")
	os.WriteFile(f, smt.Bytes(), 0o644)
	t0 := time.Now()
	out, err := exec.Command("z3", "fp.engine=datalog", f).CombinedOutput()
	res.SolverS = time.Since(t0).Seconds()
	var verdicts []string
	for _, l := range strings.Split(string(out), "\n") {
		l = strings.TrimSpace(l)
		if l == "sat" || l == "unsat" {
			verdicts = append(verdicts, l)
		} else if strings.Contains(l, "error") {
			res.Notes = append(res.Notes, "z3: "+l)
			err = fmt.Errorf("solver error")
		}
	}
	if len(verdicts) != len(asked) || err != nil {
		if err != nil {
			res.Notes = append(res.Notes, "z3: "+err.Error())
		}
		res.Notes = append(res.Notes, fmt.Sprintf("z3 answered %d of %d queries", len(verdicts), len(asked)))
		return res, false
	}
	reach := map[string]bool{}
	for i, name := range asked {
		if verdicts[i] == "sat" {
			reach[name] = true
			res.Reachable = append(res.Reachable, name)
			if !hasVisitor[name] {
				res.NoVisitor = append(res.NoVisitor, name)
			}
		} else {
			res.Unreachable = append(res.Unreachable, name)
		}
	}
	for _, name := range g.order {
		if reported[name] {
			res.Unreachable = append(res.Unreachable, name)
		}
	}

	// sentences of the round-trip harnesses, through the real parser
	_, sentences := generateGrammarSentences("x")
	sentences = append(sentences, corpusQueries()...)
	sentences = append(sentences, harnessStringList(filepath.Join(verifRoot, "harness", "internal", "verifharness", "faithful", "zz_verif_c07.go"), "verifExtra")...)
	res.Sentences = len(sentences)
	exercised := map[string]bool{}
	for _, q := range sentences {
		rules, ok := parseTreeRules(q)
		if !ok {
			continue
		}
		res.Accepted++
		for r := range rules {
			exercised[r] = true
		}
	}
	for _, name := range res.Reachable {
		if !exercised[name] {
			res.NotExercised = append(res.NotExercised, name)
		}
	}
	for r := range exercised {
		if !reach[r] {
			res.Inconsistent = append(res.Inconsistent, r)
		}
	}
	sort.Strings(res.Inconsistent)
	return res, len(res.NotExercised) == 0 && len(res.Inconsistent) == 0 && len(res.ReportedDiff) == 0
}

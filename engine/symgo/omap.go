package symgo

// omap: Go maps as insertion-ordered association lists whose key comparison may be
// symbolic. Entries with fully concrete keys are additionally indexed by a canonical
// Go-comparable key, so concrete programs keep O(1) maps.

import (
	"fmt"
	"go/types"
	"strings"
	"unsafe"

	"golang.org/x/tools/go/ssa"
)

type omapEntry struct {
	key, val value
	ck       any // canonical concrete key, nil if the key has symbolic parts
	dead     bool
}

type omap struct {
	kt      types.Type
	ents    []*omapEntry
	idx     map[any]*omapEntry
	nsym    int // live entries with symbolic keys
	live    int
	version int
}

func newOmap(kt types.Type) *omap {
	return &omap{kt: kt, idx: map[any]*omapEntry{}}
}

func (m *omap) len() int {
	if m == nil {
		return 0
	}
	return m.live
}

// concreteKey returns a canonical comparable representation of v if v is fully concrete.
func (in *interpreter) concreteKey(v value) (any, bool) {
	switch x := v.(type) {
	case bool, int, int8, int16, int32, int64, uint, uint8, uint16, uint32, uint64, uintptr, float32, float64, complex64, complex128, string:
		return x, true
	case *value:
		return x, true
	case chan value:
		return x, true
	case sym, symstr:
		return nil, false
	case unsafe.Pointer:
		return x, true
	case iface:
		if x.t == nil {
			return "nil-iface", true
		}
		ck, ok := in.concreteKey(x.v)
		if !ok {
			return nil, false
		}
		return [2]any{in.canonType(x.t), ck}, true
	case structure:
		var sb strings.Builder
		sb.WriteString("S{")
		for _, f := range x {
			ck, ok := in.concreteKey(f)
			if !ok {
				return nil, false
			}
			fmt.Fprintf(&sb, "%T:%v|", ck, ck)
		}
		return sb.String(), true
	case array:
		var sb strings.Builder
		sb.WriteString("A[")
		for _, f := range x {
			ck, ok := in.concreteKey(f)
			if !ok {
				return nil, false
			}
			fmt.Fprintf(&sb, "%T:%v|", ck, ck)
		}
		return sb.String(), true
	case rtype:
		return [2]any{"rtype", in.canonType(x.t)}, true
	case *ssa.Function:
		return x, true
	}
	panic(fmt.Sprintf("unsupported map key type %T", v))
}

// canonType maps identical types to one representative so they can be compared with ==.
func (in *interpreter) canonType(t types.Type) types.Type {
	if in.typeCanon == nil {
		in.typeCanon = map[string]types.Type{}
	}
	s := types.TypeString(t, nil)
	if c, ok := in.typeCanon[s]; ok && types.Identical(c, t) {
		return c
	}
	in.typeCanon[s] = t
	return t
}

// find returns the entry whose key equals k on this path (forking on symbolic equality).
func (m *omap) find(in *interpreter, k value) *omapEntry {
	if m == nil {
		return nil
	}
	ck, conc := in.concreteKey(k)
	if conc {
		if e, ok := m.idx[ck]; ok {
			return e
		}
		if m.nsym == 0 {
			return nil
		}
		for _, e := range m.ents {
			if e.dead || e.ck != nil {
				continue
			}
			if in.truth(eqValue(in, m.kt, k, e.key)) {
				return e
			}
		}
		return nil
	}
	for _, e := range m.ents {
		if e.dead {
			continue
		}
		if in.truth(eqValue(in, m.kt, k, e.key)) {
			return e
		}
	}
	return nil
}

func (m *omap) lookup(in *interpreter, k value) (value, bool) {
	if e := m.find(in, k); e != nil {
		return e.val, true
	}
	return nil, false
}

func (m *omap) insert(in *interpreter, k, v value) {
	if e := m.find(in, k); e != nil {
		e.val = v
		return
	}
	ck, conc := in.concreteKey(k)
	e := &omapEntry{key: k, val: v}
	if conc {
		e.ck = ck
		m.idx[ck] = e
	} else {
		m.nsym++
	}
	m.ents = append(m.ents, e)
	m.live++
	m.version++
}

func (m *omap) remove(in *interpreter, k value) {
	if m == nil {
		return
	}
	e := m.find(in, k)
	if e == nil {
		return
	}
	e.dead = true
	if e.ck != nil {
		delete(m.idx, e.ck)
	} else {
		m.nsym--
	}
	m.live--
	m.version++
	if len(m.ents) > 32 && m.live*2 < len(m.ents) {
		// compaction must not disturb running iterators: they hold entry pointers by
		// position, so compact only by building a new slice and bumping an epoch that
		// iterators check.
		m.compact()
	}
}

func (m *omap) compact() {
	out := make([]*omapEntry, 0, m.live)
	for _, e := range m.ents {
		if !e.dead {
			out = append(out, e)
		}
	}
	m.ents = out
}

func (m *omap) clear() {
	if m == nil {
		return
	}
	for _, e := range m.ents {
		e.dead = true
	}
	m.ents = nil
	m.idx = map[any]*omapEntry{}
	m.nsym, m.live = 0, 0
	m.version++
}

// omapIter iterates in insertion order (or, when map-order nondeterminism is enabled for
// the path, in an order chosen by decisions). Entries deleted during iteration are
// skipped; entries inserted during iteration are visited (one of the behaviours Go allows).
type omapIter struct {
	m     *omap
	order []*omapEntry // snapshot when a permutation was chosen
	pos   int
	seen  map[*omapEntry]bool
}

func (it *omapIter) next() tuple {
	if it.order != nil {
		for it.pos < len(it.order) {
			e := it.order[it.pos]
			it.pos++
			if !e.dead {
				return tuple{true, e.key, e.val}
			}
		}
		return tuple{false, nil, nil}
	}
	if it.m == nil {
		return tuple{false, nil, nil}
	}
	// robust against compaction: track visited entries
	for _, e := range it.m.ents {
		if e.dead || it.seen[e] {
			continue
		}
		it.seen[e] = true
		return tuple{true, e.key, e.val}
	}
	return tuple{false, nil, nil}
}

func newOmapIter(in *interpreter, m *omap) iter {
	if m != nil && m.live >= 2 {
		in.mapRanges++
		if in.reverseRange == in.mapRanges {
			var order []*omapEntry
			for i := len(m.ents) - 1; i >= 0; i-- {
				if !m.ents[i].dead {
					order = append(order, m.ents[i])
				}
			}
			return &omapIter{m: m, order: order}
		}
	}
	if m != nil && in.mapOrderNondet && m.live >= 2 && m.live <= 4 {
		var live []*omapEntry
		for _, e := range m.ents {
			if !e.dead {
				live = append(live, e)
			}
		}
		// choose a permutation by successive selection decisions
		var order []*omapEntry
		rest := live
		for len(rest) > 1 {
			pick := in.chooseIndex(len(rest), "maporder")
			order = append(order, rest[pick])
			rest = append(append([]*omapEntry{}, rest[:pick]...), rest[pick+1:]...)
		}
		order = append(order, rest[0])
		in.path.mapOrderDec = true
		return &omapIter{m: m, order: order}
	}
	return &omapIter{m: m, seen: map[*omapEntry]bool{}}
}

// chooseIndex makes an n-way shape decision (all alternatives feasible).
func (in *interpreter) chooseIndex(n int, name string) int {
	if n <= 1 {
		return 0
	}
	s := in.path.fresh(name, types.Uint8)
	in.path.assume(sym{types.Bool, mkCmp("bvult", s.e, mkConst(uint64(n), 8))})
	for i := 0; i < n-1; i++ {
		if in.path.decide(mkEq(s.e, mkConst(uint64(i), 8))) {
			return i
		}
	}
	return n - 1
}

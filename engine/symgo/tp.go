package symgo

import (
	"fmt"
	"go/types"
)

type tpShim struct{}

var typeparams tpShim

func (tpShim) MustDeref(t types.Type) types.Type {
	if ptr, ok := t.Underlying().(*types.Pointer); ok {
		return ptr.Elem()
	}
	if tp, ok := t.(*types.TypeParam); ok {
		_ = tp
	}
	panic(fmt.Sprintf("%v is not a pointer", t))
}

// Copyright 2013 The Go Authors. All rights reserved.
// Use of this source code is governed by a BSD-style
// license that can be found in the LICENSE.x-tools file.

// Package symgo is a symbolic executor for Go SSA, derived from
// golang.org/x/tools/go/ssa/interp (v0.50.0). Scalars may be symbolic (SMT bit-vector
// terms); pointers, lengths and types are concrete.
package symgo

import (
	"fmt"
	"go/token"
	"go/types"
	"os"
	"runtime"
	"slices"
	_ "unsafe"

	"golang.org/x/tools/go/ssa"
)

type continuation int

const (
	kNext continuation = iota
	kReturn
	kJump
)

// Mode is a bitmask of options affecting the interpreter.
type Mode uint

const (
	DisableRecover Mode = 1 << iota // Disable recover() in target programs; show interpreter crash instead.
	EnableTracing                   // Print a trace of all instructions as they are interpreted.
)

type methodSet map[string]*ssa.Function

// State of one worker's interpreter (one path at a time).
type interpreter struct {
	pg                 *Program
	prog               *ssa.Program           // the SSA program
	globals            map[*ssa.Global]*value // addresses of global variables
	mode               Mode                   // interpreter options
	reflectPackage     *ssa.Package           // the fake reflect package
	errorMethods       methodSet              // the method set of reflect.error, which implements the error interface.
	rtypeMethods       methodSet              // the method set of rtype, which implements the reflect.Type interface.
	runtimeErrorString types.Type             // the runtime.errorString type (iff "runtime" is present)
	sizes              types.Sizes            // the effective type-sizing function
	goroutines         int32

	path           *pathState
	pkgDone        map[*ssa.Package]bool
	instrCount     int64
	syncMaps       map[*value]*omap
	funcsSeen      map[string]bool
	initDepth      int
	runningEnsure  bool
	trace          bool
	locks          map[*value]*lockState
	guards         []guard
	mapOrderNondet bool
	faultBudget    int
	lastPos        string
	depth          int
	typeCanon      map[string]types.Type
	sch            *scheduler
	closedChans    map[chan value]bool
	curInstr       ssa.Instruction
	curFn          *ssa.Function
	onceDone       map[*value]bool
	crashArmed     bool
	natives        map[string]func(args []string) string
	mapRanges      int // ranges over maps with >= 2 entries started on this path
	reverseRange   int // the mapRanges-th such range iterates in reverse insertion order (0 = none)
	jsonDecs       map[*value]*jsonDecState
}

type deferred struct {
	fn    value
	args  []value
	instr *ssa.Defer
	tail  *deferred
}

type frame struct {
	i                *interpreter
	caller           *frame
	fn               *ssa.Function
	block, prevBlock *ssa.BasicBlock
	env              map[ssa.Value]value // dynamic values of SSA variables
	locals           []value
	defers           *deferred
	result           value
	panicking        bool
	panic            any
	phitemps         []value // temporaries for parallel phi assignment
	curCall          ssa.Instruction
}

func (fr *frame) get(key ssa.Value) value {
	switch key := key.(type) {
	case nil:
		// Hack; simplifies handling of optional attributes
		// such as ssa.Slice.{Low,High}.
		return nil
	case *ssa.Function, *ssa.Builtin:
		return key
	case *ssa.Const:
		return constValue(key)
	case *ssa.Global:
		if r, ok := fr.i.globals[key]; ok {
			return r
		}
		ensurePkg(fr.i, key.Pkg)
		if r, ok := fr.i.globals[key]; ok {
			return r
		}
	}
	if r, ok := fr.env[key]; ok {
		return r
	}
	panic(fmt.Sprintf("get: no value for %T: %v", key, key.Name()))
}

// runDefer runs a deferred call d.
// It always returns normally, but may set or clear fr.panic.
func (fr *frame) runDefer(d *deferred) {
	if fr.i.mode&EnableTracing != 0 {
		fmt.Fprintf(os.Stderr, "%s: invoking deferred function call\n",
			fr.i.prog.Fset.Position(d.instr.Pos()))
	}
	var ok bool
	defer func() {
		if !ok {
			// Deferred call created a new state of panic.
			p := recover()
			if isEngineControl(p) {
				panic(p)
			}
			fr.panicking = true
			fr.panic = p
		}
	}()
	fr.curCall = d.instr
	call(fr.i, fr, d.instr.Pos(), d.fn, d.args)
	ok = true
}

// runDefers executes fr's deferred function calls in LIFO order.
//
// On entry, fr.panicking indicates a state of panic; if
// true, fr.panic contains the panic value.
//
// On completion, if a deferred call started a panic, or if no
// deferred call recovered from a previous state of panic, then
// runDefers itself panics after the last deferred call has run.
//
// If there was no initial state of panic, or it was recovered from,
// runDefers returns normally.
func (fr *frame) runDefers() {
	for d := fr.defers; d != nil; d = d.tail {
		fr.runDefer(d)
	}
	fr.defers = nil
	if fr.panicking {
		panic(fr.panic) // new panic, or still panicking
	}
}

// lookupMethod returns the method set for type typ, which may be one
// of the interpreter's fake types.
func lookupMethod(i *interpreter, typ types.Type, meth *types.Func) *ssa.Function {
	switch typ {
	case rtypeType:
		return i.rtypeMethods[meth.Id()]
	case errorType:
		return i.errorMethods[meth.Id()]
	}
	return i.prog.LookupMethod(typ, meth.Pkg(), meth.Name())
}

// visitInstr interprets a single ssa.Instruction within the activation
// record frame.  It returns a continuation value indicating where to
// read the next instruction from.
func visitInstr(fr *frame, instr ssa.Instruction) continuation {
	in := fr.i
	in.instrCount++
	in.curInstr, in.curFn = instr, fr.fn
	if in.instrCount > in.path.budget {
		panic(engineAbort{fmt.Sprintf("instruction budget %d exhausted", in.path.budget)})
	}
	switch instr := instr.(type) {
	case *ssa.DebugRef:
		// no-op

	case *ssa.UnOp:
		fr.env[instr] = unop(in, instr, fr.get(instr.X))

	case *ssa.BinOp:
		fr.env[instr] = binop(in, instr.Op, instr.X.Type(), fr.get(instr.X), fr.get(instr.Y))

	case *ssa.Call:
		fn, args := prepareCall(fr, &instr.Call)
		fr.curCall = instr
		fr.env[instr] = call(fr.i, fr, instr.Pos(), fn, args)

	case *ssa.ChangeInterface:
		fr.env[instr] = fr.get(instr.X)

	case *ssa.ChangeType:
		fr.env[instr] = fr.get(instr.X) // (can't fail)

	case *ssa.Convert:
		fr.env[instr] = conv(in, instr.Type(), instr.X.Type(), fr.get(instr.X))

	case *ssa.SliceToArrayPointer:
		fr.env[instr] = sliceToArrayPointer(instr.Type(), instr.X.Type(), fr.get(instr.X))

	case *ssa.MakeInterface:
		fr.env[instr] = iface{t: instr.X.Type(), v: fr.get(instr.X)}

	case *ssa.Extract:
		fr.env[instr] = fr.get(instr.Tuple).(tuple)[instr.Index]

	case *ssa.Slice:
		fr.env[instr] = slice(in, fr.get(instr.X), fr.get(instr.Low), fr.get(instr.High), fr.get(instr.Max))

	case *ssa.Return:
		switch len(instr.Results) {
		case 0:
		case 1:
			fr.result = fr.get(instr.Results[0])
		default:
			var res []value
			for _, r := range instr.Results {
				res = append(res, returnOperand(fr, instr, r))
			}
			fr.result = tuple(res)
		}
		fr.block = nil
		return kReturn

	case *ssa.RunDefers:
		fr.runDefers()

	case *ssa.Panic:
		panic(targetPanic{fr.get(instr.X)})

	case *ssa.Send:
		chanSend(in, fr.get(instr.Chan), fr.get(instr.X))

	case *ssa.Store:
		addr := fr.get(instr.Addr)
		if sp, ok := addr.(symElemPtr); ok {
			addr = sp.concretePtr(in)
		}
		in.checkGuard(addr.(*value), true)
		store(typeparams.MustDeref(instr.Addr.Type()), addr.(*value), fr.get(instr.Val))

	case *ssa.If:
		succ := 1
		if in.truth(fr.get(instr.Cond)) {
			succ = 0
		}
		fr.prevBlock, fr.block = fr.block, fr.block.Succs[succ]
		return kJump

	case *ssa.Jump:
		fr.prevBlock, fr.block = fr.block, fr.block.Succs[0]
		return kJump

	case *ssa.Defer:
		fn, args := prepareCall(fr, &instr.Call)
		defers := &fr.defers
		if into := fr.get(instr.DeferStack); into != nil {
			defers = into.(**deferred)
		}
		*defers = &deferred{
			fn:    fn,
			args:  args,
			instr: instr,
			tail:  *defers,
		}

	case *ssa.Go:
		fn, args := prepareCall(fr, &instr.Call)
		in.spawn(fr, instr, fn, args)

	case *ssa.MakeChan:
		fr.env[instr] = make(chan value, in.concreteInt(fr.get(instr.Size)))

	case *ssa.Alloc:
		var addr *value
		if instr.Heap {
			// new
			addr = new(value)
			fr.env[instr] = addr
		} else {
			// local
			addr = fr.env[instr].(*value)
		}
		*addr = zero(typeparams.MustDeref(instr.Type()))

	case *ssa.MakeSlice:
		slice := make([]value, in.concreteInt(fr.get(instr.Cap)))
		tElt := instr.Type().Underlying().(*types.Slice).Elem()
		for i := range slice {
			slice[i] = zero(tElt)
		}
		fr.env[instr] = slice[:in.concreteInt(fr.get(instr.Len))]

	case *ssa.MakeMap:
		fr.env[instr] = newOmap(instr.Type().Underlying().(*types.Map).Key())

	case *ssa.Range:
		fr.env[instr] = rangeIter(in, fr.get(instr.X))

	case *ssa.Next:
		fr.env[instr] = fr.get(instr.Iter).(iter).next()

	case *ssa.FieldAddr:
		fr.env[instr] = &(*fr.get(instr.X).(*value)).(structure)[instr.Field]

	case *ssa.Field:
		fr.env[instr] = fr.get(instr.X).(structure)[instr.Field]

	case *ssa.IndexAddr:
		x := fr.get(instr.X)
		idx := fr.get(instr.Index)
		if si, ok := idx.(sym); ok {
			var elems []value
			switch x := x.(type) {
			case []value:
				elems = x
			case *value:
				elems = (*x).(array)
			}
			fr.env[instr] = symElemPtr{elems, si}
			break
		}
		switch x := x.(type) {
		case []value:
			fr.env[instr] = &x[asInt64(idx)]
		case *value: // *array
			fr.env[instr] = &(*x).(array)[asInt64(idx)]
		default:
			panic(fmt.Sprintf("unexpected x type in IndexAddr: %T", x))
		}

	case *ssa.Index:
		x := fr.get(instr.X)
		idx := fr.get(instr.Index)
		if si, ok := idx.(sym); ok {
			switch x := x.(type) {
			case array:
				fr.env[instr] = symElemPtr{x, si}.load(in)
			case string:
				fr.env[instr] = symElemPtr{[]value(toSymstr(x)), si}.load(in)
			case symstr:
				fr.env[instr] = symElemPtr{[]value(x), si}.load(in)
			default:
				panic(fmt.Sprintf("unexpected x type in Index: %T", x))
			}
			break
		}
		switch x := x.(type) {
		case array:
			fr.env[instr] = x[asInt64(idx)]
		case string:
			fr.env[instr] = x[asInt64(idx)]
		case symstr:
			fr.env[instr] = x[asInt64(idx)]
		default:
			panic(fmt.Sprintf("unexpected x type in Index: %T", x))
		}

	case *ssa.Lookup:
		fr.env[instr] = lookup(in, instr, fr.get(instr.X), fr.get(instr.Index))

	case *ssa.MapUpdate:
		m := fr.get(instr.Map)
		key := fr.get(instr.Key)
		v := fr.get(instr.Value)
		switch m := m.(type) {
		case *omap:
			if m == nil {
				panic("assignment to entry in nil map")
			}
			in.checkGuardMap(m, true)
			m.insert(in, key, v)
		default:
			panic(fmt.Sprintf("illegal map type: %T", m))
		}

	case *ssa.TypeAssert:
		fr.env[instr] = typeAssert(instr, fr.get(instr.X).(iface))

	case *ssa.MakeClosure:
		var bindings []value
		for _, binding := range instr.Bindings {
			bindings = append(bindings, fr.get(binding))
		}
		fr.env[instr] = &closure{instr.Fn.(*ssa.Function), bindings}

	case *ssa.Phi:
		panic("unreachable phi")

	case *ssa.Select:
		fr.env[instr] = doSelect(in, fr, instr)

	default:
		panic(fmt.Sprintf("unexpected instruction: %T", instr))
	}

	// if val, ok := instr.(ssa.Value); ok {
	// 	fmt.Println(toString(fr.env[val])) // debugging
	// }

	return kNext
}

// prepareCall determines the function value and argument values for a
// function call in a Call, Go or Defer instruction, performing
// interface method lookup if needed.
func prepareCall(fr *frame, call *ssa.CallCommon) (fn value, args []value) {
	v := fr.get(call.Value)
	if call.Method == nil {
		// Function call.
		fn = v
	} else {
		// Interface method invocation.
		recv := v.(iface)
		if recv.t == nil {
			panic("method invoked on nil interface")
		}
		if f := lookupMethod(fr.i, recv.t, call.Method); f == nil {
			// Unreachable in well-typed programs.
			panic(fmt.Sprintf("method set for dynamic type %v does not contain %s", recv.t, call.Method))
		} else {
			fn = f
		}
		args = append(args, recv.v)
	}
	for _, arg := range call.Args {
		args = append(args, fr.get(arg))
	}
	return
}

// call interprets a call to a function (function, builtin or closure)
// fn with arguments args, returning its result.
// callpos is the position of the callsite.
func call(i *interpreter, caller *frame, callpos token.Pos, fn value, args []value) value {
	switch fn := fn.(type) {
	case *ssa.Function:
		if fn == nil {
			panic("call of nil function") // nil of func type
		}
		return callSSA(i, caller, callpos, fn, args, nil)
	case *closure:
		return callSSA(i, caller, callpos, fn.Fn, args, fn.Env)
	case *ssa.Builtin:
		return callBuiltin(caller, fn, args)
	}
	panic(fmt.Sprintf("cannot call %T", fn))
}

func loc(fset *token.FileSet, pos token.Pos) string {
	if pos == token.NoPos {
		return ""
	}
	return " at " + fset.Position(pos).String()
}

// callSSA interprets a call to function fn with arguments args,
// and lexical environment env, returning its result.
// callpos is the position of the callsite.
func callSSA(i *interpreter, caller *frame, callpos token.Pos, fn *ssa.Function, args []value, env []value) value {
	if i.mode&EnableTracing != 0 {
		fset := fn.Prog.Fset
		// TODO(adonovan): fix: loc() lies for external functions.
		fmt.Fprintf(os.Stderr, "Entering %s%s.\n", fn, loc(fset, fn.Pos()))
		suffix := ""
		if caller != nil {
			suffix = ", resuming " + caller.fn.String() + loc(fset, callpos)
		}
		defer fmt.Fprintf(os.Stderr, "Leaving %s%s.\n", fn, suffix)
	}
	fr := &frame{
		i:      i,
		caller: caller, // for panic/recover
		fn:     fn,
	}
	if fn.Synthetic == "package initializer" && fn.Pkg != nil {
		if !i.runningEnsure || caller != nil {
			return nil
		}
		if !i.initAllowed(fn.Pkg.Pkg.Path()) {
			return nil
		}
	}
	if fn.Pkg != nil && fn.Synthetic != "package initializer" {
		ensurePkg(i, fn.Pkg)
	}
	if fn.Parent() == nil {
		name := fn.String()
		if r := i.pg.redirects[name]; r != nil && (caller == nil || caller.fn != r) {
			return callSSA(i, caller, callpos, r, args, nil)
		}
		if ext := externals[name]; ext != nil {
			return ext(fr, args)
		}
		if len(i.pg.Hooks) > 0 && fn.Pkg != nil {
			if h := i.pg.Hooks[fn.Name()]; h != nil {
				return h(i, args)
			}
		}
		if fn.Blocks == nil {
			if o := fn.Origin(); o != nil {
				if ext := externals[o.String()]; ext != nil {
					return ext(fr, args)
				}
			}
			panic(engineAbort{"unsupported: no code for function " + name})
		}
		if len(i.funcsSeen) < 5000 {
			i.funcsSeen[name] = true
		}
	}
	i.depth++
	if i.depth > 4000 {
		panic(engineAbort{"call depth 4000 exceeded (unbounded recursion?)"})
	}
	defer func() { i.depth-- }()

	// generic function body?
	if fn.TypeParams().Len() > 0 && len(fn.TypeArgs()) == 0 {
		panic("interp requires ssa.BuilderMode to include InstantiateGenerics to execute generics")
	}

	fr.env = make(map[ssa.Value]value)
	fr.block = fn.Blocks[0]
	fr.locals = make([]value, len(fn.Locals))
	for i, l := range fn.Locals {
		fr.locals[i] = zero(typeparams.MustDeref(l.Type()))
		fr.env[l] = &fr.locals[i]
	}
	for i, p := range fn.Params {
		fr.env[p] = args[i]
	}
	for i, fv := range fn.FreeVars {
		fr.env[fv] = env[i]
	}
	for fr.block != nil {
		runFrame(fr)
	}
	// Destroy the locals to avoid accidental use after return.
	for i := range fn.Locals {
		fr.locals[i] = bad{}
	}
	return fr.result
}

// runFrame executes SSA instructions starting at fr.block and
// continuing until a return, a panic, or a recovered panic.
//
// After a panic, runFrame panics.
//
// After a normal return, fr.result contains the result of the call
// and fr.block is nil.
//
// A recovered panic in a function without named return parameters
// (NRPs) becomes a normal return of the zero value of the function's
// result type.
//
// After a recovered panic in a function with NRPs, fr.result is
// undefined and fr.block contains the block at which to resume
// control.
func runFrame(fr *frame) {
	defer func() {
		if fr.block == nil {
			return // normal return
		}
		if fr.i.mode&DisableRecover != 0 {
			return // let interpreter crash
		}
		p := recover()
		if isEngineControl(p) {
			panic(p)
		}
		if _, bug := describePanic(p); bug {
			panic(p)
		}
		fr.panicking = true
		fr.panic = p
		fr.runDefers()
		fr.block = fr.fn.Recover
	}()

	for {
		if fr.i.mode&EnableTracing != 0 {
			fmt.Fprintf(os.Stderr, ".%s:\n", fr.block)
		}

		nonPhis := executePhis(fr)
		for _, instr := range nonPhis {
			if fr.i.mode&EnableTracing != 0 {
				if v, ok := instr.(ssa.Value); ok {
					fmt.Fprintln(os.Stderr, "\t", v.Name(), "=", instr)
				} else {
					fmt.Fprintln(os.Stderr, "\t", instr)
				}
			}
			if visitInstr(fr, instr) == kReturn {
				return
			}
			// Inv: kNext (continue) or kJump (last instr)
		}
	}
}

// executePhis executes the phi-nodes at the start of the current
// block and returns the non-phi instructions.
func executePhis(fr *frame) []ssa.Instruction {
	firstNonPhi := -1
	for i, instr := range fr.block.Instrs {
		if _, ok := instr.(*ssa.Phi); !ok {
			firstNonPhi = i
			break
		}
	}
	// Inv: 0 <= firstNonPhi; every block contains a non-phi.

	nonPhis := fr.block.Instrs[firstNonPhi:]
	if firstNonPhi > 0 {
		phis := fr.block.Instrs[:firstNonPhi]
		// Execute parallel assignment of phis.
		//
		// See "the swap problem" in Briggs et al's "Practical Improvements
		// to the Construction and Destruction of SSA Form" for discussion.
		predIndex := slices.Index(fr.block.Preds, fr.prevBlock)
		fr.phitemps = fr.phitemps[:0]
		for _, phi := range phis {
			phi := phi.(*ssa.Phi)
			if fr.i.mode&EnableTracing != 0 {
				fmt.Fprintln(os.Stderr, "\t", phi.Name(), "=", phi)
			}
			fr.phitemps = append(fr.phitemps, fr.get(phi.Edges[predIndex]))
		}
		for i, phi := range phis {
			fr.env[phi.(*ssa.Phi)] = fr.phitemps[i]
		}
	}
	return nonPhis
}

// doRecover implements the recover() built-in.
func doRecover(caller *frame) value {
	// recover() must be exactly one level beneath the deferred
	// function (two levels beneath the panicking function) to
	// have any effect.  Thus we ignore both "defer recover()" and
	// "defer f() -> g() -> recover()".
	if caller.i.mode&DisableRecover == 0 &&
		caller != nil && !caller.panicking &&
		caller.caller != nil && caller.caller.panicking {
		caller.caller.panicking = false
		p := caller.caller.panic
		caller.caller.panic = nil

		// TODO(adonovan): support runtime.Goexit.
		switch p := p.(type) {
		case targetPanic:
			// The target program explicitly called panic().
			return p.v
		case runtime.Error:
			// The interpreter encountered a runtime error.
			return iface{caller.i.runtimeErrorString, p.Error()}
		case string:
			// The interpreter explicitly called panic().
			return iface{caller.i.runtimeErrorString, p}
		default:
			panic(fmt.Sprintf("unexpected panic type %T in target call to recover()", p))
		}
	}
	return iface{}
}

// returnOperand evaluates one operand of a multi-value return. go/ssa evaluates the
// operands of "return x, f()" strictly left to right, i.e. it loads the variable x before
// calling f. The gc compiler performs the calls first and loads plain variables
// afterwards (the language leaves this order unspecified), and DAWGS relies on that in
// "return paths, Traversal(tx, plan, func(...) { paths.AddPath(...) })". To match the
// compiled program, a result that is a load of a variable issued in the same block before
// a later call is re-loaded at the return.
func returnOperand(fr *frame, ret *ssa.Return, r ssa.Value) value {
	un, ok := r.(*ssa.UnOp)
	if !ok || un.Op != token.MUL || un.Block() != ret.Block() {
		return fr.get(r)
	}
	if _, isAlloc := un.X.(*ssa.Alloc); !isAlloc {
		if _, isFree := un.X.(*ssa.FreeVar); !isFree {
			return fr.get(r)
		}
	}
	seenLoad, callAfter := false, false
	for _, in := range ret.Block().Instrs {
		if in == ssa.Instruction(un) {
			seenLoad = true
			continue
		}
		if seenLoad {
			if _, isCall := in.(*ssa.Call); isCall {
				callAfter = true
				break
			}
		}
	}
	if !callAfter {
		return fr.get(r)
	}
	addr, ok := fr.get(un.X).(*value)
	if !ok {
		return fr.get(r)
	}
	return load(typeparams.MustDeref(un.X.Type()), addr)
}

package symgo

// One persistent solver process per worker, SMT-LIB2 over stdin/stdout.

import (
	"bufio"
	"fmt"
	"io"
	"os"
	"os/exec"
	"strconv"
	"strings"
	"time"
)

type SolverStats struct {
	Queries  int
	Sat      int
	Unsat    int
	Unknown  int
	Errors   int
	Time     time.Duration
	Restarts int
}

type solver struct {
	bin     []string
	cmd     *exec.Cmd
	in      io.WriteCloser
	out     *bufio.Reader
	pr      *printer
	stats   SolverStats
	timeout time.Duration // per query
	log     io.Writer
}

func newSolver(bin []string, timeout time.Duration) *solver {
	s := &solver{bin: bin, timeout: timeout}
	s.start()
	return s
}

func (s *solver) start() {
	cmd := exec.Command(s.bin[0], s.bin[1:]...)
	in, _ := cmd.StdinPipe()
	outp, _ := cmd.StdoutPipe()
	cmd.Stderr = os.Stderr
	if err := cmd.Start(); err != nil {
		panic(engineAbort{"cannot start solver: " + err.Error()})
	}
	s.cmd, s.in, s.out = cmd, in, bufio.NewReaderSize(outp, 1<<16)
	s.pr = newPrinter()
	s.send("(set-option :print-success false)")
	if s.timeout > 0 && strings.Contains(s.bin[0], "z3") {
		s.send(fmt.Sprintf("(set-option :timeout %d)", s.timeout.Milliseconds()))
	}
}

func (s *solver) close() {
	if s.cmd != nil {
		s.in.Close()
		s.cmd.Process.Kill()
		s.cmd.Wait()
		s.cmd = nil
	}
}

func (s *solver) send(str string) {
	if s.log != nil {
		io.WriteString(s.log, str+"\n")
	}
	io.WriteString(s.in, str+"\n")
}

// reset drops every assertion and definition (start of a new path).
func (s *solver) reset() {
	s.send("(reset)")
	s.pr = newPrinter()
	s.send("(set-option :print-success false)")
	if s.timeout > 0 && strings.Contains(s.bin[0], "z3") {
		s.send(fmt.Sprintf("(set-option :timeout %d)", s.timeout.Milliseconds()))
	}
}

func (s *solver) text(t *term) string {
	s.pr.out.Reset()
	txt := s.pr.prepare(t)
	if s.pr.out.Len() > 0 {
		s.send(strings.TrimRight(s.pr.out.String(), "\n"))
	}
	return txt
}

func (s *solver) assert(t *term) {
	s.send("(assert " + s.text(t) + ")")
}

func (s *solver) readLine() string {
	type res struct {
		line string
		err  error
	}
	ch := make(chan res, 1)
	go func() {
		l, err := s.out.ReadString('\n')
		ch <- res{l, err}
	}()
	limit := s.timeout*2 + 5*time.Second
	if s.timeout == 0 {
		limit = 10 * time.Minute
	}
	select {
	case r := <-ch:
		if r.err != nil {
			return "(error \"solver pipe: " + r.err.Error() + "\")"
		}
		return strings.TrimSpace(r.line)
	case <-time.After(limit):
		return "timeout"
	}
}

// check returns "sat", "unsat" or "unknown" for (current assertions ∧ extra).
func (s *solver) check(extra *term) string {
	t0 := time.Now()
	txt := s.text(extra) // definitions go to the base level
	s.send("(push 1)")
	s.send("(assert " + txt + ")")
	s.send("(check-sat)")
	r := s.readVerdict()
	s.send("(pop 1)")
	s.account(r, t0)
	return r
}

func (s *solver) readVerdict() string {
	for {
		line := s.readLine()
		switch {
		case line == "sat" || line == "unsat" || line == "unknown":
			return line
		case line == "timeout":
			// solver wedged: restart; caller treats as unknown
			s.close()
			s.start()
			s.stats.Restarts++
			return "restart"
		case strings.HasPrefix(line, "(error"):
			s.stats.Errors++
			if os.Getenv("SYMGO_DEBUG") != "" {
				fmt.Fprintln(os.Stderr, "solver:", line)
			}
			// keep reading until the verdict line arrives, but remember the error
			v := s.readVerdict()
			_ = v
			return "unknown"
		case line == "":
			continue
		default:
			// unexpected chatter
			continue
		}
	}
}

func (s *solver) account(r string, t0 time.Time) {
	s.stats.Queries++
	s.stats.Time += time.Since(t0)
	switch r {
	case "sat":
		s.stats.Sat++
	case "unsat":
		s.stats.Unsat++
	default:
		s.stats.Unknown++
	}
}

// model returns values for vars under (assertions ∧ extra); ok is false unless sat.
func (s *solver) model(extra *term, vars []*term) (map[string]uint64, string) {
	t0 := time.Now()
	txt := s.text(extra)
	for _, v := range vars {
		s.text(v)
	}
	s.send("(push 1)")
	s.send("(assert " + txt + ")")
	s.send("(check-sat)")
	r := s.readVerdict()
	res := map[string]uint64{}
	if r == "sat" {
		for _, v := range vars {
			s.send("(get-value (" + v.name + "))")
			line := s.readLine()
			res[v.name] = parseValue(line)
		}
	}
	if r != "restart" {
		s.send("(pop 1)")
	}
	s.account(r, t0)
	return res, r
}

// parseValue parses "((name #x00ff))", "((name #b0101))", "((name true))", "((name (_ bv5 8)))".
func parseValue(line string) uint64 {
	line = strings.TrimSpace(line)
	if i := strings.Index(line, "#x"); i >= 0 {
		j := i + 2
		for j < len(line) && isHex(line[j]) {
			j++
		}
		v, _ := strconv.ParseUint(line[i+2:j], 16, 64)
		return v
	}
	if i := strings.Index(line, "#b"); i >= 0 {
		j := i + 2
		for j < len(line) && (line[j] == '0' || line[j] == '1') {
			j++
		}
		v, _ := strconv.ParseUint(line[i+2:j], 2, 64)
		return v
	}
	if i := strings.Index(line, "(_ bv"); i >= 0 {
		j := i + 5
		k := j
		for k < len(line) && line[k] >= '0' && line[k] <= '9' {
			k++
		}
		v, _ := strconv.ParseUint(line[j:k], 10, 64)
		return v
	}
	if strings.Contains(line, " true)") {
		return 1
	}
	return 0
}

func isHex(c byte) bool {
	return (c >= '0' && c <= '9') || (c >= 'a' && c <= 'f') || (c >= 'A' && c <= 'F')
}

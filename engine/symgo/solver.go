package symgo

// One persistent solver process per worker, SMT-LIB2 over stdin/stdout.

import (
	"bufio"
	"fmt"
	"io"
	"os"
	"os/exec"
	"strconv"
	"strings"
	"sync"
	"sync/atomic"
	"syscall"
	"time"
)

type SolverStats struct {
	Queries  int
	Sat      int
	Unsat    int
	Unknown  int
	Errors   int
	Time     time.Duration
	Restarts int
}

type solver struct {
	bin     []string
	cmd     *exec.Cmd
	in      io.WriteCloser
	out     *bufio.Reader
	pr      *printer
	stats   SolverStats
	timeout time.Duration // per query
	log     io.Writer
	hist    *strings.Builder // commands since the last reset (SYMGO_SMTLOG)
	cache   map[string]bool  // branch feasibility by independence slice (per worker, per harness)
	named   map[string]*term // assertion name -> term (current session)
	qc      *qcache
	resets  int // (reset)s sent to this process: z3 4.8.12 does not give the memory back
}

// qcache is shared by the workers of one exploration: unsat cores and recent models
// answer most feasibility queries without a solver call (after KLEE's counterexample cache).
type qcache struct {
	mu                  sync.RWMutex
	cores               map[*term][][]*term // query -> sets of path literals that make it unsatisfiable
	models              []map[string]uint64
	next                int
	CoreHits, ModelHits int64
	nAux, nInc          int64
	tAux, tInc          time.Duration
}

// pickAux chooses between the standalone bit-blasting solver and the incremental one for
// assertion batches: whichever has been faster on this harness so far (both are sampled).
func (c *qcache) pickAux() bool {
	c.mu.RLock()
	defer c.mu.RUnlock()
	switch {
	case c.nAux < 12:
		return true
	case c.nInc < 12:
		return false
	case (c.nAux+c.nInc)%64 == 0:
		return c.tAux/time.Duration(c.nAux) >= c.tInc/time.Duration(c.nInc) // explore the other one
	}
	return c.tAux/time.Duration(c.nAux) < c.tInc/time.Duration(c.nInc)
}

func (c *qcache) noteBatch(aux bool, d time.Duration) {
	c.mu.Lock()
	if aux {
		c.nAux++
		c.tAux += d
	} else {
		c.nInc++
		c.tInc += d
	}
	c.mu.Unlock()
}

func newQcache() *qcache {
	return &qcache{cores: map[*term][][]*term{}, models: make([]map[string]uint64, 0, 24)}
}

func (c *qcache) addCore(q *term, core []*term) {
	c.mu.Lock()
	if len(c.cores[q]) < 64 {
		c.cores[q] = append(c.cores[q], core)
	}
	c.mu.Unlock()
}

func (c *qcache) addModel(m map[string]uint64) {
	c.mu.Lock()
	if len(c.models) < cap(c.models) {
		c.models = append(c.models, m)
	} else {
		c.models[c.next%len(c.models)] = m
		c.next++
	}
	c.mu.Unlock()
}

var slowCount int64

func newSolver(bin []string, timeout time.Duration) *solver {
	s := &solver{bin: bin, timeout: timeout, cache: map[string]bool{}}
	if os.Getenv("SYMGO_SMTLOG") != "" {
		s.hist = &strings.Builder{}
	}
	s.start()
	return s
}

func (s *solver) start() {
	args := append([]string{}, s.bin[1:]...)
	if strings.Contains(s.bin[0], "z3") {
		// a query that blows up must end as "unknown" (solver error or exit, both handled by
		// readVerdict), not take the machine's memory with it
		args = append(args, "-memory:3000")
	}
	cmd := exec.Command(s.bin[0], args...)
	// a solver never outlives its engine (also not when the engine is killed)
	cmd.SysProcAttr = &syscall.SysProcAttr{Pdeathsig: syscall.SIGKILL}
	in, _ := cmd.StdinPipe()
	outp, _ := cmd.StdoutPipe()
	cmd.Stderr = os.Stderr
	if err := cmd.Start(); err != nil {
		panic(engineAbort{"cannot start solver: " + err.Error()})
	}
	s.cmd, s.in, s.out = cmd, in, bufio.NewReaderSize(outp, 1<<16)
	s.pr = newPrinter()
	s.named = map[string]*term{}
	s.send("(set-option :print-success false)")
	if !noCores {
		s.send("(set-option :produce-unsat-cores true)")
	}
	if s.timeout > 0 && strings.Contains(s.bin[0], "z3") {
		s.send(fmt.Sprintf("(set-option :timeout %d)", s.timeout.Milliseconds()))
	}
}

func (s *solver) close() {
	if s.cmd != nil {
		s.in.Close()
		s.cmd.Process.Kill()
		s.cmd.Wait()
		s.cmd = nil
	}
}

func (s *solver) send(str string) {
	if s.hist != nil {
		s.hist.WriteString(str + "\n")
	}
	io.WriteString(s.in, str+"\n")
}

// reset drops every assertion and definition (start of a new path).
func (s *solver) reset() {
	if s.hist != nil {
		s.hist.Reset()
	}
	if s.resets++; s.resets >= 20000 {
		s.resets = 0
		s.close()
		s.start() // fresh process, see checkStandalone
		return
	}
	s.send("(reset)")
	s.pr = newPrinter()
	s.named = map[string]*term{}
	s.send("(set-option :print-success false)")
	if !noCores {
		s.send("(set-option :produce-unsat-cores true)")
	}
	if s.timeout > 0 && strings.Contains(s.bin[0], "z3") {
		s.send(fmt.Sprintf("(set-option :timeout %d)", s.timeout.Milliseconds()))
	}
}

func (s *solver) text(t *term) string {
	s.pr.out.Reset()
	txt := s.pr.prepare(t)
	if s.pr.out.Len() > 0 {
		s.send(strings.TrimRight(s.pr.out.String(), "\n"))
	}
	return txt
}

func (s *solver) assert(t *term) {
	name := fmt.Sprintf("a!%d", t.id)
	if _, dup := s.named[name]; dup {
		return
	}
	s.named[name] = t
	s.send("(assert (! " + s.text(t) + " :named " + name + "))")
}

// core returns the path literals of the last unsat answer's core (call right after an
// unsat check-sat, before pop).
var noCores = os.Getenv("SYMGO_NOCORES") != ""

func (s *solver) core() []*term {
	if noCores {
		var out []*term
		for _, t := range s.named {
			out = append(out, t)
		}
		return out
	}
	s.send("(get-unsat-core)")
	line := s.readLine()
	for strings.Count(line, "(") > strings.Count(line, ")") {
		line += " " + s.readLine()
	}
	line = strings.Trim(line, "() ")
	var out []*term
	for _, n := range strings.Fields(line) {
		if t, ok := s.named[n]; ok {
			out = append(out, t)
		}
	}
	return out
}

func (s *solver) readLine() string {
	type res struct {
		line string
		err  error
	}
	ch := make(chan res, 1)
	go func() {
		l, err := s.out.ReadString('\n')
		ch <- res{l, err}
	}()
	limit := s.timeout*2 + 5*time.Second
	if s.timeout == 0 {
		limit = 10 * time.Minute
	}
	select {
	case r := <-ch:
		if r.err != nil {
			return "(error \"solver pipe: " + r.err.Error() + "\")"
		}
		return strings.TrimSpace(r.line)
	case <-time.After(limit):
		return "timeout"
	}
}

// check returns "sat", "unsat" or "unknown" for (current assertions ∧ extra).
func (s *solver) check(extra *term) string {
	t0 := time.Now()
	txt := s.text(extra) // definitions go to the base level
	s.send("(push 1)")
	s.send("(assert " + txt + ")")
	s.send("(check-sat)")
	r := s.readVerdict()
	if r != "restart" {
		s.send("(pop 1)")
	}
	s.account(r, t0)
	return r
}

// checkCore is check() that also returns the unsat core (path literals) on unsat.
func (s *solver) checkCore(extra *term) (string, []*term) {
	t0 := time.Now()
	txt := s.text(extra)
	s.send("(push 1)")
	s.send("(assert (! " + txt + " :named q!q))")
	s.send("(check-sat)")
	r := s.readVerdict()
	var core []*term
	if r == "unsat" {
		core = s.core()
	}
	if r != "restart" {
		s.send("(pop 1)")
	}
	s.account(r, t0)
	return r, core
}

func (s *solver) readVerdict() string {
	sawError := false
	for {
		line := s.readLine()
		switch {
		case line == "sat" || line == "unsat" || line == "unknown":
			if sawError {
				// an (error line before the verdict: the answer is inconclusive
				return "unknown"
			}
			return line
		case line == "timeout" || strings.HasPrefix(line, "(error \"solver pipe:"):
			// solver wedged or gone (killed, crashed): restart; caller treats as unknown
			s.close()
			s.start()
			s.stats.Restarts++
			return "restart"
		case strings.HasPrefix(line, "(error"):
			s.stats.Errors++
			if os.Getenv("SYMGO_DEBUG") != "" {
				fmt.Fprintln(os.Stderr, "solver:", line)
			}
			// keep reading until the verdict line arrives, but remember the error
			sawError = true
		case line == "":
			continue
		default:
			// unexpected chatter
			continue
		}
	}
}

func (s *solver) account(r string, t0 time.Time) {
	if s.hist != nil && time.Since(t0) > slowThreshold() {
		n := atomic.AddInt64(&slowCount, 1)
		if n <= 5 {
			os.WriteFile(fmt.Sprintf("%s/slow-%d.smt2", os.Getenv("SYMGO_SMTLOG"), n), []byte(s.hist.String()), 0o644)
		}
	}
	s.stats.Queries++
	s.stats.Time += time.Since(t0)
	switch r {
	case "sat":
		s.stats.Sat++
	case "unsat":
		s.stats.Unsat++
	default:
		s.stats.Unknown++
	}
}

// model returns values for vars under (assertions ∧ extra); ok is false unless sat.
func (s *solver) model(extra *term, vars []*term) (map[string]uint64, string) {
	m, r, _ := s.modelCore(extra, vars)
	return m, r
}

func (s *solver) modelCore(extra *term, vars []*term) (map[string]uint64, string, []*term) {
	t0 := time.Now()
	txt := s.text(extra)
	for _, v := range vars {
		s.text(v)
	}
	s.send("(push 1)")
	s.send("(assert (! " + txt + " :named q!q))")
	s.send("(check-sat)")
	r := s.readVerdict()
	var core []*term
	if r == "unsat" {
		core = s.core()
	}
	res := map[string]uint64{}
	if r == "sat" {
		for _, v := range vars {
			s.send("(get-value (" + v.name + "))")
			line := s.readLine()
			res[v.name] = parseValue(line)
		}
	}
	if r != "restart" {
		s.send("(pop 1)")
	}
	s.account(r, t0)
	return res, r, core
}

// parseValue parses "((name #x00ff))", "((name #b0101))", "((name true))", "((name (_ bv5 8)))".
func parseValue(line string) uint64 {
	line = strings.TrimSpace(line)
	if i := strings.Index(line, "#x"); i >= 0 {
		j := i + 2
		for j < len(line) && isHex(line[j]) {
			j++
		}
		v, _ := strconv.ParseUint(line[i+2:j], 16, 64)
		return v
	}
	if i := strings.Index(line, "#b"); i >= 0 {
		j := i + 2
		for j < len(line) && (line[j] == '0' || line[j] == '1') {
			j++
		}
		v, _ := strconv.ParseUint(line[i+2:j], 2, 64)
		return v
	}
	if i := strings.Index(line, "(_ bv"); i >= 0 {
		j := i + 5
		k := j
		for k < len(line) && line[k] >= '0' && line[k] <= '9' {
			k++
		}
		v, _ := strconv.ParseUint(line[j:k], 10, 64)
		return v
	}
	if strings.Contains(line, " true)") {
		return 1
	}
	return 0
}

func isHex(c byte) bool {
	return (c >= '0' && c <= '9') || (c >= 'a' && c <= 'f') || (c >= 'A' && c <= 'F')
}

func slowThreshold() time.Duration {
	if ms, err := strconv.Atoi(os.Getenv("SYMGO_SLOWMS")); err == nil {
		return time.Duration(ms) * time.Millisecond
	}
	return 3 * time.Second
}

// checkStandalone decides (∧cs) ∧ q from scratch in QF_BV (non-incremental): z3's
// bit-blasting tactic pipeline is several times faster on the assertion batches than
// the incremental core. Used for validity queries only (no model needed).
func (s *solver) checkStandalone(cs []*term, q *term) (string, []*term) {
	t0 := time.Now()
	if s.resets++; s.resets >= 5000 {
		// a fresh process instead of the 5000th (reset): keeps a long exploration's solver
		// from growing without bound
		s.resets = 0
		s.close()
		s.start()
	}
	s.send("(reset)")
	s.pr = newPrinter()
	s.named = map[string]*term{}
	s.send("(set-option :print-success false)")
	if !noCores {
		s.send("(set-option :produce-unsat-cores true)")
	}
	if s.timeout > 0 {
		s.send(fmt.Sprintf("(set-option :timeout %d)", s.timeout.Milliseconds()))
	}
	s.send("(set-logic QF_BV)")
	for _, c := range cs {
		s.assert(c)
	}
	s.send("(assert " + s.text(q) + ")")
	s.send("(check-sat)")
	r := s.readVerdict()
	var core []*term
	if r == "unsat" {
		core = s.core()
	}
	s.account(r, t0)
	return r, core
}

package symgo

// Strings with symbolic bytes. symstr coexists with Go string; a symstr whose bytes are
// all concrete is normalised back to a Go string.

import (
	"fmt"
	"go/token"
	"go/types"
)

type symstr []value // each element: uint8 or sym{Uint8}

func isStrSym(v value) bool { _, ok := v.(symstr); return ok }

func toSymstr(v value) symstr {
	switch x := v.(type) {
	case symstr:
		return x
	case string:
		out := make(symstr, len(x))
		for i := 0; i < len(x); i++ {
			out[i] = x[i]
		}
		return out
	}
	panic(fmt.Sprintf("toSymstr %T", v))
}

// normStr: if all bytes are concrete return a Go string
func normStr(s symstr) value {
	b := make([]byte, len(s))
	for i, v := range s {
		c, ok := v.(uint8)
		if !ok {
			cp := make(symstr, len(s))
			copy(cp, s)
			return cp
		}
		b[i] = c
	}
	return string(b)
}

func byteEq(a, b value) value { // returns bool or sym Bool
	if !isSym(a) && !isSym(b) {
		return a.(uint8) == b.(uint8)
	}
	return mkSymVal(types.Bool, mkEq(toTerm(a, types.Uint8), toTerm(b, types.Uint8)))
}

func strEq(x, y symstr) value {
	if len(x) != len(y) {
		return false
	}
	var r value = true
	for i := range x {
		r = boolAnd(r, byteEq(x[i], y[i]))
		if b, ok := r.(bool); ok && !b {
			return false
		}
	}
	return r
}

// strLess builds the lexicographic x < y as a term (no forks).
func strLess(x, y symstr) value {
	// lt_i = x[i] < y[i] || (x[i]==y[i] && lt_{i+1}), with end conditions
	n := len(x)
	if len(y) < n {
		n = len(y)
	}
	var res value = len(x) < len(y) // all common bytes equal
	for i := n - 1; i >= 0; i-- {
		a, b := toTerm(x[i], types.Uint8), toTerm(y[i], types.Uint8)
		lt := mkSymVal(types.Bool, mkCmp("bvult", a, b))
		eq := mkSymVal(types.Bool, mkEq(a, b))
		res = boolOr(lt, boolAnd(eq, res))
	}
	return res
}

func symstrBinop(in *interpreter, op token.Token, x, y value) value {
	a, b := toSymstr(x), toSymstr(y)
	switch op {
	case token.ADD:
		out := make(symstr, 0, len(a)+len(b))
		out = append(out, a...)
		out = append(out, b...)
		return normStr(out)
	case token.EQL:
		return strEq(a, b)
	case token.NEQ:
		return boolNot(strEq(a, b))
	case token.LSS:
		return strLess(a, b)
	case token.GTR:
		return strLess(b, a)
	case token.LEQ:
		return boolNot(strLess(b, a))
	case token.GEQ:
		return boolNot(strLess(a, b))
	}
	panic("unsupported symstr binop: " + op.String())
}

// symstrIter implements range over a string with symbolic bytes using the real
// utf8.DecodeRuneInString (interpreted), so invalid and multi-byte sequences fork exactly
// as the library code does.
type symstrIter struct {
	in *interpreter
	s  symstr
	i  int
}

func (it *symstrIter) next() tuple {
	if it.i >= len(it.s) {
		return tuple{false, nil, nil}
	}
	pos := it.i
	if c, ok := it.s[pos].(uint8); ok && c < 0x80 {
		it.i++
		return tuple{true, pos, rune(c)}
	}
	if sb, ok := it.s[pos].(sym); ok {
		if it.in.path.decide(mkCmp("bvult", sb.e, mkConst(0x80, 8))) {
			it.i++
			return tuple{true, pos, mkSymVal(types.Int32, mkZext(32, sb.e))}
		}
	}
	fn := it.in.pg.lookupFunc("unicode/utf8", "DecodeRuneInString")
	if fn == nil {
		panic(engineAbort{"unsupported: unicode/utf8 not loaded"})
	}
	rest := it.s[pos:]
	if len(rest) > 4 {
		rest = rest[:4]
	}
	res := call(it.in, nil, 0, fn, []value{normStr(rest)}).(tuple)
	size := int(it.in.concreteInt(res[1]))
	it.i += size
	return tuple{true, pos, res[0]}
}

func (in *interpreter) encodeRuneSym(r sym) value {
	fn := in.pg.lookupFunc("unicode/utf8", "AppendRune")
	if fn == nil {
		panic(engineAbort{"unsupported: unicode/utf8 not loaded"})
	}
	var rv value = r
	if r.k != types.Int32 {
		rv = symConv(types.Typ[types.Int32], r)
	}
	res := call(in, nil, 0, fn, []value{[]value(nil), rv}).([]value)
	return normStr(symstr(res))
}

package symgo

// Loading the program under test (from /repo's working tree plus an overlay of harness
// files) and per-worker interpreter construction.

import (
	"fmt"
	"go/types"
	"os"
	"reflect"
	"strings"

	"golang.org/x/tools/go/packages"
	"golang.org/x/tools/go/ssa"
	"golang.org/x/tools/go/ssa/ssautil"
)

type ssaFunc = *ssa.Function

type Program struct {
	Prog     *ssa.Program
	Pkgs     []*packages.Package
	SSAPkgs  []*ssa.Package
	sizes    types.Sizes
	LoadErrs []string

	runtimeErrorString types.Type
	redirects          map[string]*ssa.Function // full callee name -> replacement
	InitAllow          []string                 // extra package-path prefixes whose init may run
	Lifted             map[string]func(in *interpreter) value
	Natives            map[string]func(args []string) string
	Hooks              map[string]NativeHook
	LiftHooks          map[string]func(in *Interp, elem reflect.Value) Value // by pointee type "pkg.Name"
}

type LoadConfig struct {
	Dir      string            // module root used for loading (the engine module)
	Patterns []string          // package patterns
	Overlay  map[string][]byte // virtual file -> content
	Tags     string
	Env      []string
}

// Load type-checks the packages and builds SSA for the whole program.
func Load(cfg LoadConfig) (*Program, error) {
	pc := &packages.Config{
		Mode:       packages.LoadAllSyntax,
		Dir:        cfg.Dir,
		BuildFlags: buildFlags(cfg.Tags),
		Overlay:    cfg.Overlay,
		Env:        append(os.Environ(), cfg.Env...),
	}
	pkgs, err := packages.Load(pc, cfg.Patterns...)
	if err != nil {
		return nil, err
	}
	pg := &Program{Pkgs: pkgs, sizes: &types.StdSizes{WordSize: 8, MaxAlign: 8}, redirects: map[string]*ssa.Function{},
		Lifted: map[string]func(in *interpreter) value{}, Natives: map[string]func(args []string) string{}}
	packages.Visit(pkgs, nil, func(p *packages.Package) {
		for _, e := range p.Errors {
			pg.LoadErrs = append(pg.LoadErrs, e.Error())
		}
	})
	if len(pg.LoadErrs) > 0 {
		return pg, fmt.Errorf("load errors: %s", strings.Join(pg.LoadErrs, "; "))
	}
	prog, ssapkgs := ssautil.AllPackages(pkgs, ssa.InstantiateGenerics)
	prog.Build()
	pg.Prog, pg.SSAPkgs = prog, ssapkgs
	if rt := prog.ImportedPackage("runtime"); rt != nil {
		pg.runtimeErrorString = rt.Type("errorString").Object().Type()
	}
	return pg, nil
}

func (pg *Program) Package(path string) *ssa.Package {
	for _, p := range pg.Prog.AllPackages() {
		if p.Pkg.Path() == path {
			return p
		}
	}
	return nil
}

func (pg *Program) lookupFunc(pkgPath, name string) *ssa.Function {
	p := pg.Package(pkgPath)
	if p == nil {
		return nil
	}
	return p.Func(name)
}

// Redirect diverts calls of the function whose String() is from to the function to
// (pkgPath.name), which must have the same signature.
func (pg *Program) Redirect(from, toPkg, toName string) error {
	f := pg.lookupFunc(toPkg, toName)
	if f == nil {
		return fmt.Errorf("redirect target %s.%s not found", toPkg, toName)
	}
	pg.redirects[from] = f
	return nil
}

// HasFunction reports whether the function or method whose String() is key exists:
// "pkg/path.Func", "(pkg/path.T).Method" or "(*pkg/path.T).Method".
func (pg *Program) HasFunction(key string) bool {
	if strings.HasPrefix(key, "(") {
		closing := strings.Index(key, ").")
		if closing < 0 {
			return false
		}
		recv, method := strings.TrimPrefix(key[1:closing], "*"), key[closing+2:]
		dot := strings.LastIndex(recv, ".")
		if dot < 0 {
			return false
		}
		p := pg.Package(recv[:dot])
		if p == nil {
			return false
		}
		t := p.Type(recv[dot+1:])
		if t == nil {
			return false
		}
		named := t.Type()
		for _, typ := range []types.Type{named, types.NewPointer(named)} {
			ms := pg.Prog.MethodSets.MethodSet(typ)
			for i := 0; i < ms.Len(); i++ {
				if ms.At(i).Obj().Name() == method {
					return true
				}
			}
		}
		return false
	}
	dot := strings.LastIndex(key, ".")
	return dot >= 0 && pg.lookupFunc(key[:dot], key[dot+1:]) != nil
}

func (pg *Program) ClearRedirects() { pg.redirects = map[string]*ssa.Function{} }

func (pg *Program) newInterp() *interpreter {
	in := &interpreter{
		pg:                 pg,
		prog:               pg.Prog,
		sizes:              pg.sizes,
		runtimeErrorString: pg.runtimeErrorString,
		goroutines:         1,
	}
	initReflect(in)
	return in
}

func (in *interpreter) resetForPath(p *pathState) {
	in.path = p
	in.globals = make(map[*ssa.Global]*value)
	in.pkgDone = map[*ssa.Package]bool{}
	in.instrCount = 0
	in.syncMaps = map[*value]*omap{}
	in.funcsSeen = map[string]bool{}
	in.initDepth = 0
	in.runningEnsure = false
	in.locks = map[*value]*lockState{}
	in.guards = nil
	in.mapOrderNondet = false
	in.faultBudget = 0
	in.lastPos = ""
	in.depth = 0
	in.typeCanon = nil
	in.sch = nil
	in.closedChans = nil
	in.onceDone = map[*value]bool{}
	in.crashArmed = false
	in.mapRanges, in.reverseRange = 0, 0
	in.jsonDecs = nil
}

func (in *interpreter) callTop(fn *ssa.Function, args []value) value {
	return call(in, nil, 0, fn, args)
}

func buildFlags(tags string) []string {
	fl := []string{"-tags=" + tags}
	if mf := os.Getenv("VERIF_MODFILE"); mf != "" {
		fl = append(fl, "-modfile="+mf)
	}
	return fl
}

package symgo

// Channels (single goroutine semantics), select, go, the lockset monitor and small helpers.

import (
	"fmt"
	"go/types"

	"golang.org/x/tools/go/ssa"
)

// targetHang: the target would block forever (deadlock / self-deadlock).
type targetHang struct{ msg string }

func copyVal(v value) value {
	switch x := v.(type) {
	case structure:
		out := make(structure, len(x))
		for i := range x {
			out[i] = copyVal(x[i])
		}
		return out
	case array:
		out := make(array, len(x))
		for i := range x {
			out[i] = copyVal(x[i])
		}
		return out
	}
	return v
}

func copyElems(s []value) []value {
	need := false
	for _, e := range s {
		switch e.(type) {
		case structure, array:
			need = true
		}
		if need {
			break
		}
	}
	if !need {
		return s
	}
	out := make([]value, len(s))
	for i, e := range s {
		out[i] = copyVal(e)
	}
	return out
}

func zeroLike(v value) value {
	switch x := v.(type) {
	case sym:
		return constOfKind(x.k, 0)
	case bool:
		return false
	case int:
		return int(0)
	case int8:
		return int8(0)
	case int16:
		return int16(0)
	case int32:
		return int32(0)
	case int64:
		return int64(0)
	case uint:
		return uint(0)
	case uint8:
		return uint8(0)
	case uint16:
		return uint16(0)
	case uint32:
		return uint32(0)
	case uint64:
		return uint64(0)
	case uintptr:
		return uintptr(0)
	case float32:
		return float32(0)
	case float64:
		return float64(0)
	case string, symstr:
		return ""
	case *value:
		return (*value)(nil)
	case iface:
		return iface{}
	case []value:
		return []value(nil)
	case *omap:
		return (*omap)(nil)
	case structure:
		out := make(structure, len(x))
		for i := range x {
			out[i] = zeroLike(x[i])
		}
		return out
	case array:
		out := make(array, len(x))
		for i := range x {
			out[i] = zeroLike(x[i])
		}
		return out
	}
	panic(fmt.Sprintf("unsupported zeroLike %T", v))
}

func minmax(in *interpreter, x, y value, isMin bool) value {
	if isSym(x) || isSym(y) {
		k := valueKind(x)
		if sy, ok := y.(sym); ok {
			k = sy.k
		}
		_, signed := kindInfo(k)
		a, b := toTerm(x, k), toTerm(y, k)
		op := "bvult"
		if signed {
			op = "bvslt"
		}
		lt := mkCmp(op, a, b)
		if isMin {
			return mkSymVal(k, mkIte(lt, a, b))
		}
		return mkSymVal(k, mkIte(lt, b, a))
	}
	if isMin {
		return min(x, y)
	}
	return max(x, y)
}

// ---------------------------------------------------------------- channels

type chanMeta struct{ closed bool }

func (in *interpreter) sched() *scheduler { return in.sch }

func chanSend(in *interpreter, c value, v value) {
	ch := c.(chan value)
	if in.sch != nil {
		in.sch.send(ch, v)
		return
	}
	if ch == nil {
		panic(targetHang{"send on nil channel blocks forever"})
	}
	if in.closedChans[ch] {
		panic(targetPanic{iface{in.runtimeErrorString, "send on closed channel"}})
	}
	if len(ch) == cap(ch) {
		panic(targetHang{"deadlock: channel send would block with a single goroutine"})
	}
	ch <- v
}

func chanRecv(in *interpreter, c value) (value, bool) {
	ch := c.(chan value)
	if in.sch != nil {
		return in.sch.recv(ch)
	}
	if ch == nil {
		panic(targetHang{"receive on nil channel blocks forever"})
	}
	select {
	case v, ok := <-ch:
		return v, ok
	default:
		panic(targetHang{"deadlock: channel receive would block with a single goroutine"})
	}
}

func chanClose(in *interpreter, c value) {
	ch := c.(chan value)
	if in.sch != nil {
		in.sch.closeChan(ch)
		return
	}
	if in.closedChans == nil {
		in.closedChans = map[chan value]bool{}
	}
	if in.closedChans[ch] {
		panic(targetPanic{iface{in.runtimeErrorString, "close of closed channel"}})
	}
	in.closedChans[ch] = true
	close(ch)
}

func doSelect(in *interpreter, fr *frame, instr *ssa.Select) value {
	if in.sch != nil {
		return in.sch.selectStmt(fr, instr)
	}
	// single goroutine: pick the first ready case (all ready cases are explored when
	// select nondeterminism is on)
	var ready []int
	for i, st := range instr.States {
		ch, _ := fr.get(st.Chan).(chan value)
		if ch == nil {
			continue
		}
		if st.Dir == types.RecvOnly {
			if len(ch) > 0 || in.closedChans[ch] {
				ready = append(ready, i)
			}
		} else {
			if in.closedChans[ch] {
				panic(targetPanic{iface{in.runtimeErrorString, "send on closed channel"}})
			}
			if len(ch) < cap(ch) {
				ready = append(ready, i)
			}
		}
	}
	chosen := -1
	if len(ready) > 0 {
		chosen = ready[in.chooseIndex(len(ready), "select")]
	} else if instr.Blocking {
		panic(targetHang{"deadlock: select with no ready case and a single goroutine"})
	}
	recvOk := false
	var recv value
	if chosen >= 0 {
		st := instr.States[chosen]
		ch := fr.get(st.Chan).(chan value)
		if st.Dir == types.RecvOnly {
			recv, recvOk = <-ch
		} else {
			ch <- fr.get(st.Send)
		}
	}
	r := tuple{chosen, recvOk}
	for i, st := range instr.States {
		if st.Dir == types.RecvOnly {
			var v value
			if i == chosen && recvOk {
				v = recv
			} else {
				v = zero(st.Chan.Type().Underlying().(*types.Chan).Elem())
			}
			r = append(r, v)
		}
	}
	return r
}

func (in *interpreter) spawn(fr *frame, instr *ssa.Go, fn value, args []value) {
	if in.sch == nil {
		// target code starts goroutines: explore them with blocking switches only
		in.sch = newScheduler(in, 0)
	}
	in.sch.spawn(fn, args)
}

// ---------------------------------------------------------------- lockset monitor

type lockState struct {
	writer  bool
	readers int
}

type guard struct {
	cell *value
	lock *value
	mode int // 0: writes need Lock, reads need RLock or Lock; 1: all accesses need Lock
	name string
}

func (in *interpreter) lockOf(p *value) *lockState {
	ls := in.locks[p]
	if ls == nil {
		ls = &lockState{}
		in.locks[p] = ls
	}
	return ls
}

func (in *interpreter) guardViolation(g guard, write bool) {
	kind := "read"
	if write {
		kind = "write"
	}
	in.path.fail("assert", fmt.Sprintf("lock discipline: %s of guarded state %q without holding its lock", kind, g.name), "guard:"+g.name, in.path.anyModel())
	panic(pathDone{})
}

func (in *interpreter) checkGuard(addr *value, write bool) {
	in.raceAccess(addr, write)
	if len(in.guards) == 0 {
		return
	}
	for _, g := range in.guards {
		if g.cell == addr {
			in.checkHeld(g, write)
		}
	}
}

func (in *interpreter) checkGuardMap(m *omap, write bool) {
	in.raceAccessMap(m, write)
	if len(in.guards) == 0 || m == nil {
		return
	}
	for _, g := range in.guards {
		if mm, ok := (*g.cell).(*omap); ok && mm == m {
			in.checkHeld(g, write)
		}
	}
}

func (in *interpreter) checkHeld(g guard, write bool) {
	ls := in.lockOf(g.lock)
	if ls.writer {
		return
	}
	if !write && g.mode == 0 && ls.readers > 0 {
		return
	}
	in.guardViolation(g, write)
}

// Copyright 2013 The Go Authors. All rights reserved.
// Use of this source code is governed by a BSD-style
// license that can be found in the LICENSE file.

package symgo

// Emulated functions that we cannot interpret because they are
// external or because they use "unsafe" or "reflect" operations.

import (
	"maps"
	"math"
	"os"
	"runtime"
	"strconv"
)

type externalFn func(fr *frame, args []value) value

// TODO(adonovan): fix: reflect.Value abstracts an lvalue or an
// rvalue; Set() causes mutations that can be observed via aliases.
// We have not captured that correctly here.

// Key strings are from Function.String().
var externals = make(map[string]externalFn)

func init() {
	// That little dot ۰ is an Arabic zero numeral (U+06F0), categories [Nd].
	maps.Copy(externals, map[string]externalFn{
		"(reflect.Value).Bool":         ext۰reflect۰Value۰Bool,
		"(reflect.Value).CanAddr":      ext۰reflect۰Value۰CanAddr,
		"(reflect.Value).CanInterface": ext۰reflect۰Value۰CanInterface,
		"(reflect.Value).Elem":         ext۰reflect۰Value۰Elem,
		"(reflect.Value).Field":        ext۰reflect۰Value۰Field,
		"(reflect.Value).Float":        ext۰reflect۰Value۰Float,
		"(reflect.Value).Index":        ext۰reflect۰Value۰Index,
		"(reflect.Value).Int":          ext۰reflect۰Value۰Int,
		"(reflect.Value).Interface":    ext۰reflect۰Value۰Interface,
		"(reflect.Value).IsNil":        ext۰reflect۰Value۰IsNil,
		"(reflect.Value).IsValid":      ext۰reflect۰Value۰IsValid,
		"(reflect.Value).Kind":         ext۰reflect۰Value۰Kind,
		"(reflect.Value).Len":          ext۰reflect۰Value۰Len,
		"(reflect.Value).MapIndex":     ext۰reflect۰Value۰MapIndex,
		"(reflect.Value).MapKeys":      ext۰reflect۰Value۰MapKeys,
		"(reflect.Value).NumField":     ext۰reflect۰Value۰NumField,
		"(reflect.Value).NumMethod":    ext۰reflect۰Value۰NumMethod,
		"(reflect.Value).Pointer":      ext۰reflect۰Value۰Pointer,
		"(reflect.Value).Set":          ext۰reflect۰Value۰Set,
		"(reflect.Value).String":       ext۰reflect۰Value۰String,
		"(reflect.Value).Type":         ext۰reflect۰Value۰Type,
		"(reflect.Value).Uint":         ext۰reflect۰Value۰Uint,
		"(reflect.error).Error":        ext۰reflect۰error۰Error,
		"(reflect.rtype).Bits":         ext۰reflect۰rtype۰Bits,
		"(reflect.rtype).Elem":         ext۰reflect۰rtype۰Elem,
		"(reflect.rtype).Field":        ext۰reflect۰rtype۰Field,
		"(reflect.rtype).In":           ext۰reflect۰rtype۰In,
		"(reflect.rtype).Kind":         ext۰reflect۰rtype۰Kind,
		"(reflect.rtype).NumField":     ext۰reflect۰rtype۰NumField,
		"(reflect.rtype).NumIn":        ext۰reflect۰rtype۰NumIn,
		"(reflect.rtype).NumMethod":    ext۰reflect۰rtype۰NumMethod,
		"(reflect.rtype).NumOut":       ext۰reflect۰rtype۰NumOut,
		"(reflect.rtype).Out":          ext۰reflect۰rtype۰Out,
		"(reflect.rtype).Size":         ext۰reflect۰rtype۰Size,
		"(reflect.rtype).String":       ext۰reflect۰rtype۰String,
		"math.Abs":                     ext۰math۰Abs,
		"math.Copysign":                ext۰math۰Copysign,
		"math.Exp":                     ext۰math۰Exp,
		"math.Float32bits":             ext۰math۰Float32bits,
		"math.Float32frombits":         ext۰math۰Float32frombits,
		"math.Float64bits":             ext۰math۰Float64bits,
		"math.Float64frombits":         ext۰math۰Float64frombits,
		"math.Inf":                     ext۰math۰Inf,
		"math.IsNaN":                   ext۰math۰IsNaN,
		"math.Ldexp":                   ext۰math۰Ldexp,
		"math.Log":                     ext۰math۰Log,
		"math.Min":                     ext۰math۰Min,
		"math.NaN":                     ext۰math۰NaN,
		"math.Sqrt":                    ext۰math۰Sqrt,
		"os.Exit":                      ext۰os۰Exit,
		"os.Getenv":                    ext۰os۰Getenv,
		"reflect.New":                  ext۰reflect۰New,
		"reflect.SliceOf":              ext۰reflect۰SliceOf,
		"reflect.TypeOf":               ext۰reflect۰TypeOf,
		"reflect.ValueOf":              ext۰reflect۰ValueOf,
		"reflect.Zero":                 ext۰reflect۰Zero,
		"runtime.Breakpoint":           ext۰runtime۰Breakpoint,
		"runtime.GC":                   ext۰runtime۰GC,
		"runtime.GOMAXPROCS":           ext۰runtime۰GOMAXPROCS,
		"runtime.GOROOT":               ext۰runtime۰GOROOT,
		"runtime.Gosched":              ext۰runtime۰Gosched,
		"runtime.NumCPU":               ext۰runtime۰NumCPU,
		"strconv.FormatFloat":          ext۰strconv۰FormatFloat,
	})
}

func ext۰math۰Float64frombits(fr *frame, args []value) value {
	return math.Float64frombits(args[0].(uint64))
}

func ext۰math۰Float64bits(fr *frame, args []value) value {
	return math.Float64bits(args[0].(float64))
}

func ext۰math۰Float32frombits(fr *frame, args []value) value {
	return math.Float32frombits(args[0].(uint32))
}

func ext۰math۰Abs(fr *frame, args []value) value {
	return math.Abs(args[0].(float64))
}

func ext۰math۰Copysign(fr *frame, args []value) value {
	return math.Copysign(args[0].(float64), args[1].(float64))
}

func ext۰math۰Exp(fr *frame, args []value) value {
	return math.Exp(args[0].(float64))
}

func ext۰math۰Float32bits(fr *frame, args []value) value {
	return math.Float32bits(args[0].(float32))
}

func ext۰math۰Min(fr *frame, args []value) value {
	return math.Min(args[0].(float64), args[1].(float64))
}

func ext۰math۰NaN(fr *frame, args []value) value {
	return math.NaN()
}

func ext۰math۰IsNaN(fr *frame, args []value) value {
	return math.IsNaN(args[0].(float64))
}

func ext۰math۰Inf(fr *frame, args []value) value {
	return math.Inf(args[0].(int))
}

func ext۰math۰Ldexp(fr *frame, args []value) value {
	return math.Ldexp(args[0].(float64), args[1].(int))
}

func ext۰math۰Log(fr *frame, args []value) value {
	return math.Log(args[0].(float64))
}

func ext۰math۰Sqrt(fr *frame, args []value) value {
	return math.Sqrt(args[0].(float64))
}

func ext۰runtime۰Breakpoint(fr *frame, args []value) value {
	runtime.Breakpoint()
	return nil
}

func ext۰strconv۰FormatFloat(fr *frame, args []value) value {
	return strconv.FormatFloat(args[0].(float64), args[1].(byte), args[2].(int), args[3].(int))
}

func ext۰runtime۰GOMAXPROCS(fr *frame, args []value) value {
	// Ignore args[0]; don't let the interpreted program
	// set the interpreter's GOMAXPROCS!
	return runtime.GOMAXPROCS(0)
}

func ext۰runtime۰GOROOT(fr *frame, args []value) value {
	return runtime.GOROOT()
}

func ext۰runtime۰GC(fr *frame, args []value) value {
	runtime.GC()
	return nil
}

func ext۰runtime۰Gosched(fr *frame, args []value) value {
	runtime.Gosched()
	return nil
}

func ext۰runtime۰NumCPU(fr *frame, args []value) value {
	return runtime.NumCPU()
}

func ext۰os۰Getenv(fr *frame, args []value) value {
	name := args[0].(string)
	switch name {
	case "GOSSAINTERP":
		return "1"
	}
	return os.Getenv(name)
}

func ext۰os۰Exit(fr *frame, args []value) value {
	panic(exitPanic(args[0].(int)))
}

// A fake function for turning an arbitrary value into a string.
// Handles only the cases needed by the tests.
// Uses same logic as 'print' built-in.

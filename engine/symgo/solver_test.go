package symgo

import (
	"testing"
	"time"
)

// A solver process that exits (killed, out of memory) must end the query as "restart"
// - which callers count as unknown - and not hang or recurse.
func TestDeadSolverPipeRestarts(t *testing.T) {
	s := newSolver([]string{"/bin/sh", "-c", "read line; exit 0"}, time.Second)
	defer s.close()
	done := make(chan string, 1)
	go func() { done <- s.readVerdict() }()
	select {
	case r := <-done:
		if r != "restart" {
			t.Fatalf("verdict %q, want restart", r)
		}
	case <-time.After(20 * time.Second):
		t.Fatal("readVerdict did not return on a dead pipe")
	}
	if s.stats.Restarts != 1 {
		t.Fatalf("restarts = %d", s.stats.Restarts)
	}
}

// An (error line before the verdict makes the verdict inconclusive.
func TestSolverErrorLineIsInconclusive(t *testing.T) {
	s := newSolver([]string{"/bin/sh", "-c", "echo '(error \"line 1: bad\")'; echo unsat; sleep 5"}, time.Second)
	defer s.close()
	if r := s.readVerdict(); r != "unknown" {
		t.Fatalf("verdict %q, want unknown", r)
	}
}

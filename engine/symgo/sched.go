package symgo

import (
	"golang.org/x/tools/go/ssa"
)

// scheduler: bounded exploration of goroutine interleavings (build stage 5). Until it is
// implemented the single-goroutine channel semantics of misc.go apply.
type scheduler struct{}

func (s *scheduler) send(ch chan value, v value)         { panic(engineAbort{"unsupported: scheduler"}) }
func (s *scheduler) recv(ch chan value) (value, bool)    { panic(engineAbort{"unsupported: scheduler"}) }
func (s *scheduler) closeChan(ch chan value)             { panic(engineAbort{"unsupported: scheduler"}) }
func (s *scheduler) spawn(fn value, args []value)        { panic(engineAbort{"unsupported: scheduler"}) }
func (s *scheduler) selectStmt(fr *frame, instr *ssa.Select) value {
	panic(engineAbort{"unsupported: scheduler"})
}

package symgo

// Bounded scheduler: goroutines of the target run as host goroutines of which exactly one
// executes at a time. Control changes hands only at scheduling points - lock and unlock,
// channel operations, select, WaitGroup, Once, atomic operations, go statements, goroutine
// exit - and which enabled goroutine continues is a decision of the path, so the exploration
// enumerates the schedules. A switch away from a goroutine that could have continued costs
// one unit of the preemption budget given to verifrt.Schedule; switches at blocking
// operations and exits are free. Plain memory accesses are not scheduling points: the
// claims made with the scheduler assume data-race freedom, which the lockset monitor checks
// separately. A state in which no goroutine can continue is reported as a hang.

import (
	"fmt"
	"go/types"
	"strings"

	"golang.org/x/tools/go/ssa"
)

type threadKilled struct{}

type gthread struct {
	id      int
	wake    chan bool // true: run; false: the path is over, unwind
	done    bool
	parked  bool
	depth   int
	enabled func() bool // nil when runnable; the condition it waits for otherwise
	recvOn  []chan value
}

type chanState struct {
	buf      []value
	capacity int
	closed   bool
	taken    int // number of values received so far (for the unbuffered handshake)
	sent     int
}

type scheduler struct {
	in       *interpreter
	threads  []*gthread
	cur      *gthread
	preempts int
	chans    map[chan value]*chanState
	wgs      map[*value]*int
	onces    map[*value]int // 1 running, 2 done
	fatal    any
	steps    int
	maxSteps int
}

func newScheduler(in *interpreter, preempts int) *scheduler {
	main := &gthread{id: 0, wake: make(chan bool)}
	return &scheduler{in: in, threads: []*gthread{main}, cur: main, preempts: preempts,
		chans: map[chan value]*chanState{}, wgs: map[*value]*int{}, onces: map[*value]int{}, maxSteps: 20000}
}

func (s *scheduler) isEnabled(t *gthread) bool {
	return !t.done && (t.enabled == nil || t.enabled())
}

// park blocks the calling host goroutine until it is scheduled again.
func (s *scheduler) park(t *gthread) {
	t.parked = true
	ok := <-t.wake
	t.parked = false
	if !ok {
		panic(threadKilled{})
	}
	s.in.depth = t.depth
	if t.id == 0 && s.fatal != nil {
		f := s.fatal
		s.fatal = nil
		panic(f)
	}
}

func (s *scheduler) switchTo(next *gthread) {
	cur := s.cur
	if next == cur {
		return
	}
	cur.depth = s.in.depth
	s.cur = next
	next.wake <- true
	s.park(cur)
}

// yield is a scheduling point of the running goroutine; cond (may be nil) is the condition
// under which it can perform its next operation. yield returns when the goroutine has been
// chosen to continue and cond holds.
func (s *scheduler) yield(cond func() bool, recvOn ...chan value) {
	in := s.in
	if in.runningEnsure {
		return
	}
	s.steps++
	if s.steps > s.maxSteps {
		panic(engineAbort{fmt.Sprintf("scheduler step budget %d exhausted", s.maxSteps)})
	}
	cur := s.cur
	selfOK := cond == nil || cond()
	cur.enabled, cur.recvOn = cond, recvOn
	var cands []*gthread
	for _, t := range s.threads {
		if t == cur {
			if selfOK {
				cands = append(cands, t)
			}
		} else if s.isEnabled(t) {
			cands = append(cands, t)
		}
	}
	if len(cands) == 0 {
		cur.enabled, cur.recvOn = nil, nil
		panic(targetHang{s.describeHang()})
	}
	next := cands[0]
	if selfOK && (s.preempts <= 0 || len(cands) == 1) {
		next = cur
	} else if len(cands) > 1 {
		next = cands[in.chooseIndex(len(cands), "schedule")]
	}
	if next != cur {
		if selfOK {
			s.preempts--
		}
		s.switchTo(next)
		// resumed: we were chosen, so cond holds
	}
	cur.enabled, cur.recvOn = nil, nil
}

func (s *scheduler) describeHang() string {
	blocked := 0
	for _, t := range s.threads {
		if !t.done {
			blocked++
		}
	}
	return fmt.Sprintf("deadlock: all %d live goroutines are blocked", blocked)
}

func (s *scheduler) spawn(fn value, args []value) {
	in := s.in
	t := &gthread{id: len(s.threads), wake: make(chan bool)}
	s.threads = append(s.threads, t)
	go func() {
		if ok := <-t.wake; !ok {
			return
		}
		defer func() {
			r := recover()
			if _, killed := r.(threadKilled); killed {
				return
			}
			t.done = true
			if r != nil {
				s.fatal = r
				if !isEngineControl(r) {
					if _, isTarget := r.(targetPanic); !isTarget {
						if msg, bug := describePanic(r); bug {
							s.fatal = engineAbort{"unsupported: " + msg}
						} else {
							s.fatal = r
						}
					}
				}
			}
			s.exitThread(t)
		}()
		in.depth = 0
		call(in, nil, 0, fn, args)
	}()
	// the new goroutine is runnable; starting it is a scheduling point of the parent
	s.yield(nil)
}

// exitThread hands control to another goroutine when t has finished.
func (s *scheduler) exitThread(t *gthread) {
	main := s.threads[0]
	if s.fatal != nil {
		s.cur = main
		main.wake <- true
		return
	}
	var cands []*gthread
	for _, o := range s.threads {
		if o != t && s.isEnabled(o) {
			cands = append(cands, o)
		}
	}
	if len(cands) == 0 {
		live := false
		for _, o := range s.threads {
			live = live || !o.done
		}
		if live {
			s.fatal = targetHang{s.describeHang()}
		}
		s.cur = main
		if !main.done {
			main.wake <- true
		}
		return
	}
	next := cands[0]
	if len(cands) > 1 {
		func() {
			defer func() {
				if r := recover(); r != nil {
					s.fatal = r
					next = main
				}
			}()
			next = cands[s.in.chooseIndex(len(cands), "schedule")]
		}()
	}
	s.cur = next
	next.wake <- true
}

// killAll ends every parked goroutine (at the end of a path).
func (s *scheduler) killAll() {
	for _, t := range s.threads[1:] {
		if !t.done && t.parked {
			t.wake <- false
		} else if !t.done {
			// never started
			select {
			case t.wake <- false:
			default:
			}
		}
	}
}

// ---- channels -------------------------------------------------------------------------

func (s *scheduler) chanOf(ch chan value) *chanState {
	cs := s.chans[ch]
	if cs == nil {
		cs = &chanState{capacity: cap(ch)}
		// values put into the host channel before the scheduler was switched on
		for len(ch) > 0 {
			cs.buf = append(cs.buf, <-ch)
		}
		if s.in.closedChans[ch] {
			cs.closed = true
		}
		s.chans[ch] = cs
	}
	return cs
}

func (s *scheduler) receiverWaiting(ch chan value) bool {
	for _, t := range s.threads {
		if t != s.cur && !t.done && t.parked {
			for _, c := range t.recvOn {
				if c == ch {
					return true
				}
			}
		}
	}
	return false
}

func (s *scheduler) sendReady(ch chan value, cs *chanState) bool {
	if cs.closed {
		return true
	}
	if cs.capacity == 0 {
		return len(cs.buf) == 0 && s.receiverWaiting(ch)
	}
	return len(cs.buf) < cs.capacity
}

func (s *scheduler) send(ch chan value, v value) {
	if ch == nil {
		s.yield(func() bool { return false })
	}
	cs := s.chanOf(ch)
	s.yield(func() bool { return s.sendReady(ch, cs) })
	if cs.closed {
		panic(targetPanic{iface{s.in.runtimeErrorString, "send on closed channel"}})
	}
	cs.buf = append(cs.buf, v)
	cs.sent++
	if cs.capacity == 0 {
		// rendezvous: continue once the value has been taken
		mine := cs.sent
		s.yield(func() bool { return cs.taken >= mine || cs.closed })
	}
}

func (s *scheduler) recv(ch chan value) (value, bool) {
	if ch == nil {
		s.yield(func() bool { return false })
	}
	cs := s.chanOf(ch)
	s.yield(func() bool { return len(cs.buf) > 0 || cs.closed }, ch)
	if len(cs.buf) > 0 {
		v := cs.buf[0]
		cs.buf = cs.buf[1:]
		cs.taken++
		return v, true
	}
	return nil, false
}

func (s *scheduler) closeChan(ch chan value) {
	cs := s.chanOf(ch)
	s.yield(nil)
	if cs.closed {
		panic(targetPanic{iface{s.in.runtimeErrorString, "close of closed channel"}})
	}
	cs.closed = true
}

func (s *scheduler) chanLen(ch chan value) int {
	if ch == nil {
		return 0
	}
	return len(s.chanOf(ch).buf)
}

func (s *scheduler) selectStmt(fr *frame, instr *ssa.Select) value {
	type selCase struct {
		ch   chan value
		cs   *chanState
		recv bool
	}
	cases := make([]selCase, len(instr.States))
	var recvOn []chan value
	for i, st := range instr.States {
		ch, _ := fr.get(st.Chan).(chan value)
		cases[i] = selCase{ch: ch, recv: st.Dir == types.RecvOnly}
		if ch != nil {
			cases[i].cs = s.chanOf(ch)
			if cases[i].recv {
				recvOn = append(recvOn, ch)
			}
		}
	}
	ready := func() []int {
		var out []int
		for i, c := range cases {
			if c.ch == nil {
				continue
			}
			if c.recv {
				if len(c.cs.buf) > 0 || c.cs.closed {
					out = append(out, i)
				}
			} else if s.sendReady(c.ch, c.cs) {
				out = append(out, i)
			}
		}
		return out
	}
	if instr.Blocking {
		s.yield(func() bool { return len(ready()) > 0 }, recvOn...)
	} else {
		s.yield(nil)
	}
	rs := ready()
	chosen := -1
	if len(rs) > 0 {
		chosen = rs[0]
		if len(rs) > 1 {
			chosen = rs[s.in.chooseIndex(len(rs), "select")]
		}
	}
	recvOk := false
	var recv value
	if chosen >= 0 {
		c := cases[chosen]
		if c.recv {
			if len(c.cs.buf) > 0 {
				recv, recvOk = c.cs.buf[0], true
				c.cs.buf = c.cs.buf[1:]
				c.cs.taken++
			}
		} else {
			if c.cs.closed {
				panic(targetPanic{iface{s.in.runtimeErrorString, "send on closed channel"}})
			}
			c.cs.buf = append(c.cs.buf, fr.get(instr.States[chosen].Send))
			c.cs.sent++
			if c.cs.capacity == 0 {
				mine := c.cs.sent
				s.yield(func() bool { return c.cs.taken >= mine || c.cs.closed })
			}
		}
	}
	r := tuple{chosen, recvOk}
	for i, st := range instr.States {
		if st.Dir == types.RecvOnly {
			var v value
			if i == chosen && recvOk {
				v = recv
			} else {
				v = zero(st.Chan.Type().Underlying().(*types.Chan).Elem())
			}
			r = append(r, v)
		}
	}
	return r
}

// ---- sync ---------------------------------------------------------------------------

func (s *scheduler) lock(ls *lockState) {
	s.yield(func() bool { return !ls.writer && ls.readers == 0 })
	ls.writer = true
}

func (s *scheduler) rlock(ls *lockState) {
	s.yield(func() bool { return !ls.writer })
	ls.readers++
}

func (s *scheduler) wgCounter(c *value) *int {
	n := s.wgs[c]
	if n == nil {
		n = new(int)
		s.wgs[c] = n
	}
	return n
}

func init() {
	rt := RTPath + "."
	// an atomic operation is a preemption point
	for k, f := range externals {
		if strings.Contains(k, "sync/atomic") {
			f := f
			externals[k] = func(fr *frame, args []value) value {
				if s := fr.i.sch; s != nil && s.preempts > 0 {
					s.yield(nil)
				}
				return f(fr, args)
			}
		}
	}
	// Schedule(preemptions): from here on goroutines are explored by the bounded scheduler.
	externals[rt+"Schedule"] = func(fr *frame, args []value) value {
		in := fr.i
		if in.sch == nil {
			in.sch = newScheduler(in, int(asInt64(args[0])))
		}
		return nil
	}
	externals["(*sync.WaitGroup).Add"] = func(fr *frame, args []value) value {
		in := fr.i
		if in.sch == nil {
			in.sch = newScheduler(in, 0)
		}
		in.sch.yield(nil)
		n := in.sch.wgCounter(cell(args[0]))
		*n += int(asInt64(args[1]))
		if *n < 0 {
			panic(targetPanic{iface{in.runtimeErrorString, "sync: negative WaitGroup counter"}})
		}
		return nil
	}
	externals["(*sync.WaitGroup).Done"] = func(fr *frame, args []value) value {
		return externals["(*sync.WaitGroup).Add"](fr, []value{args[0], int(-1)})
	}
	externals["(*sync.WaitGroup).Wait"] = func(fr *frame, args []value) value {
		in := fr.i
		if in.sch == nil {
			in.sch = newScheduler(in, 0)
		}
		n := in.sch.wgCounter(cell(args[0]))
		in.sch.yield(func() bool { return *n == 0 })
		return nil
	}
	externals["(*sync.WaitGroup).Go"] = func(fr *frame, args []value) value {
		in := fr.i
		if in.sch == nil {
			in.sch = newScheduler(in, 0)
		}
		n := in.sch.wgCounter(cell(args[0]))
		*n++
		f := args[1]
		done := func(fr2 *frame, a []value) value { return nil }
		_ = done
		in.sch.spawnWithExit(f, func() { *n-- })
		return nil
	}
}

// spawnWithExit starts fn() and runs atExit when it returns normally.
func (s *scheduler) spawnWithExit(fn value, atExit func()) {
	in := s.in
	t := &gthread{id: len(s.threads), wake: make(chan bool)}
	s.threads = append(s.threads, t)
	go func() {
		if ok := <-t.wake; !ok {
			return
		}
		defer func() {
			r := recover()
			if _, killed := r.(threadKilled); killed {
				return
			}
			t.done = true
			if r != nil {
				s.fatal = r
				if !isEngineControl(r) {
					if _, isTarget := r.(targetPanic); !isTarget {
						if msg, bug := describePanic(r); bug {
							s.fatal = engineAbort{"unsupported: " + msg}
						}
					}
				}
			} else {
				atExit()
			}
			s.exitThread(t)
		}()
		in.depth = 0
		call(in, nil, 0, fn, nil)
	}()
	s.yield(nil)
}

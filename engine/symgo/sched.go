package symgo

// Bounded scheduler: goroutines of the target run as host goroutines of which exactly one
// executes at a time. Control changes hands only at scheduling points - lock and unlock,
// channel operations, select, WaitGroup, Once, atomic operations, go statements, goroutine
// exit - and which enabled goroutine continues is a decision of the path, so the exploration
// enumerates the schedules. A switch away from a goroutine that could have continued costs
// one unit of the preemption budget given to verifrt.Schedule; switches at blocking
// operations and exits are free. Plain memory accesses are not scheduling points: the
// claims made with the scheduler assume data-race freedom, which the lockset monitor checks
// separately. A state in which no goroutine can continue is reported as a hang.

import (
	"fmt"
	"go/types"
	"os"
	"strings"

	"golang.org/x/tools/go/ssa"
)

type threadKilled struct{}

type atExitKey struct{ t *gthread }

// readerSide keys the clock that RUnlock releases into (read by Lock, not by RLock)
type readerSide struct{ ls *lockState }

var schedDebug = os.Getenv("SYMGO_SCHED_DEBUG") != ""

type sendOffer struct {
	ch  chan value
	v   value
	idx int
}

type handoff struct {
	ch chan value
	v  value
}

type gthread struct {
	id      int
	wake    chan bool // true: run; false: the path is over, unwind
	done    bool
	parked  bool
	depth   int
	enabled func() bool // nil when runnable; the condition it waits for otherwise
	// rendezvous on unbuffered channels: what the parked goroutine offers and awaits, and
	// what a partner has already done for it
	recvOn  []chan value
	sendOn  []sendOffer
	got     *handoff
	sentIdx int
	pos     string // where it parked (diagnostics)
}

type chanState struct {
	buf      []value
	capacity int
	closed   bool
}

type scheduler struct {
	in       *interpreter
	threads  []*gthread
	cur      *gthread
	preempts int
	chans    map[chan value]*chanState
	wgs      map[*value]*int
	onces    map[*value]int // 1 running, 2 done
	fatal    any
	steps    int
	maxSteps int
	rs       *raceState
}

func newScheduler(in *interpreter, preempts int) *scheduler {
	main := &gthread{id: 0, wake: make(chan bool, 1), sentIdx: -1}
	return &scheduler{in: in, threads: []*gthread{main}, cur: main, preempts: preempts,
		chans: map[chan value]*chanState{}, wgs: map[*value]*int{}, onces: map[*value]int{}, maxSteps: 20000}
}

func (s *scheduler) isEnabled(t *gthread) bool {
	return !t.done && (t.enabled == nil || t.enabled())
}

// park blocks the calling host goroutine until it is scheduled again.
func (s *scheduler) park(t *gthread) {
	ok := <-t.wake
	t.parked = false
	if !ok {
		panic(threadKilled{})
	}
	s.in.depth = t.depth
	if t.id == 0 && s.fatal != nil {
		f := s.fatal
		s.fatal = nil
		panic(f)
	}
}

func (s *scheduler) switchTo(next *gthread) {
	cur := s.cur
	if next == cur {
		return
	}
	cur.depth = s.in.depth
	cur.pos = s.in.curPos()
	cur.parked = true // before the next goroutine runs: it inspects who is parked
	s.cur = next
	next.wake <- true
	s.park(cur)
}

// yield is a scheduling point of the running goroutine; cond (may be nil) is the condition
// under which it can perform its next operation. yield returns when the goroutine has been
// chosen to continue and cond holds.
func (s *scheduler) yield(cond func() bool) {
	s.yieldOffering(cond, nil, nil)
}

// yieldOffering is yield for a goroutine that, while parked, can be a partner of a
// rendezvous: it receives on recvOn and offers the sends sendOn.
func (s *scheduler) yieldOffering(cond func() bool, recvOn []chan value, sendOn []sendOffer) {
	in := s.in
	if in.runningEnsure {
		return
	}
	s.steps++
	if s.steps > s.maxSteps {
		panic(engineAbort{fmt.Sprintf("scheduler step budget %d exhausted", s.maxSteps)})
	}
	cur := s.cur
	selfOK := cond == nil || cond()
	cur.enabled, cur.recvOn, cur.sendOn = cond, recvOn, sendOn
	var cands []*gthread
	for _, t := range s.threads {
		if t == cur {
			if selfOK {
				cands = append(cands, t)
			}
		} else if s.isEnabled(t) {
			cands = append(cands, t)
		}
	}
	if schedDebug {
		ids := ""
		for _, c := range cands {
			ids += fmt.Sprintf(" g%d", c.id)
		}
		fmt.Fprintf(os.Stderr, "[sched] g%d at %s selfOK=%v recv=%d send=%d cands=%s\n", cur.id, in.curPos(), selfOK, len(recvOn), len(sendOn), ids)
	}
	if len(cands) == 0 {
		cur.enabled, cur.recvOn, cur.sendOn = nil, nil, nil
		panic(targetHang{s.describeHang()})
	}
	next := cands[0]
	if selfOK && (s.preempts <= 0 || len(cands) == 1) {
		next = cur
	} else if len(cands) > 1 {
		next = cands[in.chooseIndex(len(cands), "schedule")]
	}
	if next != cur {
		if selfOK {
			s.preempts--
		}
		s.switchTo(next)
		// resumed: we were chosen, so cond holds
	}
	cur.enabled, cur.recvOn, cur.sendOn = nil, nil, nil
}

func (s *scheduler) describeHang() string {
	var parts []string
	for _, t := range s.threads {
		if t.done {
			continue
		}
		pos := t.pos
		if t == s.cur {
			pos = s.in.curPos()
		}
		parts = append(parts, fmt.Sprintf("g%d at %s", t.id, pos))
	}
	return fmt.Sprintf("deadlock: all %d live goroutines are blocked (%s)", len(parts), strings.Join(parts, "; "))
}

func (s *scheduler) spawn(fn value, args []value) {
	in := s.in
	t := &gthread{id: len(s.threads), wake: make(chan bool, 1), sentIdx: -1}
	s.threads = append(s.threads, t)
	s.hbFork(t)
	go func() {
		if ok := <-t.wake; !ok {
			return
		}
		defer func() {
			r := recover()
			if _, killed := r.(threadKilled); killed {
				return
			}
			t.done = true
			if r != nil {
				s.fatal = r
				if !isEngineControl(r) {
					if _, isTarget := r.(targetPanic); !isTarget {
						if msg, bug := describePanic(r); bug {
							s.fatal = engineAbort{"unsupported: " + msg}
						} else {
							s.fatal = r
						}
					}
				}
			}
			s.exitThread(t)
		}()
		in.depth = 0
		call(in, nil, 0, fn, args)
	}()
	// the new goroutine is runnable; starting it is a scheduling point of the parent
	s.yield(nil)
}

// exitThread hands control to another goroutine when t has finished.
func (s *scheduler) exitThread(t *gthread) {
	main := s.threads[0]
	if s.fatal != nil {
		s.cur = main
		main.wake <- true
		return
	}
	var cands []*gthread
	for _, o := range s.threads {
		if o != t && s.isEnabled(o) {
			cands = append(cands, o)
		}
	}
	if len(cands) == 0 {
		live := false
		for _, o := range s.threads {
			live = live || !o.done
		}
		if live {
			s.fatal = targetHang{s.describeHang()}
		}
		s.cur = main
		if !main.done {
			main.wake <- true
		}
		return
	}
	next := cands[0]
	if len(cands) > 1 {
		func() {
			defer func() {
				if r := recover(); r != nil {
					s.fatal = r
					next = main
				}
			}()
			next = cands[s.in.chooseIndex(len(cands), "schedule")]
		}()
	}
	s.cur = next
	next.wake <- true
}

// killAll ends every parked goroutine (at the end of a path).
func (s *scheduler) killAll() {
	for _, t := range s.threads[1:] {
		if !t.done {
			// parked, or not started yet: the buffered token is picked up either way
			select {
			case t.wake <- false:
			default:
			}
		}
	}
}

// ---- channels -------------------------------------------------------------------------

func (s *scheduler) chanOf(ch chan value) *chanState {
	cs := s.chans[ch]
	if cs == nil {
		cs = &chanState{capacity: cap(ch)}
		// values put into the host channel before the scheduler was switched on
		for len(ch) > 0 {
			cs.buf = append(cs.buf, <-ch)
		}
		if s.in.closedChans[ch] {
			cs.closed = true
		}
		s.chans[ch] = cs
	}
	return cs
}

// parkedReceiver: a goroutine parked in a receive (or select with a receive case) on ch
// that has not been served yet.
func (s *scheduler) parkedReceiver(ch chan value) *gthread {
	for _, t := range s.threads {
		if t != s.cur && !t.done && t.parked && t.got == nil && t.sentIdx < 0 {
			for _, c := range t.recvOn {
				if c == ch {
					return t
				}
			}
		}
	}
	return nil
}

// parkedSender: a goroutine parked in a send (or select with a send case) on ch.
func (s *scheduler) parkedSender(ch chan value) (*gthread, *sendOffer) {
	for _, t := range s.threads {
		if t != s.cur && !t.done && t.parked && t.got == nil && t.sentIdx < 0 {
			for i := range t.sendOn {
				if t.sendOn[i].ch == ch {
					return t, &t.sendOn[i]
				}
			}
		}
	}
	return nil, nil
}

func (s *scheduler) sendReady(ch chan value, cs *chanState) bool {
	if cs.closed {
		return true
	}
	if cs.capacity == 0 {
		return s.parkedReceiver(ch) != nil
	}
	return len(cs.buf) < cs.capacity
}

func (s *scheduler) recvReady(ch chan value, cs *chanState) bool {
	if len(cs.buf) > 0 || cs.closed {
		return true
	}
	if cs.capacity == 0 {
		t, _ := s.parkedSender(ch)
		return t != nil
	}
	return false
}

// doSend performs a send that is ready.
func (s *scheduler) doSend(ch chan value, cs *chanState, v value) {
	s.hbRelease(ch)
	if cs.closed {
		panic(targetPanic{iface{s.in.runtimeErrorString, "send on closed channel"}})
	}
	if cs.capacity == 0 {
		r := s.parkedReceiver(ch)
		r.got = &handoff{ch, v}
		return
	}
	cs.buf = append(cs.buf, v)
}

// doRecv performs a receive that is ready.
func (s *scheduler) doRecv(ch chan value, cs *chanState) (value, bool) {
	s.hbAcquire(ch)
	if len(cs.buf) > 0 {
		v := cs.buf[0]
		cs.buf = cs.buf[1:]
		return v, true
	}
	if cs.capacity == 0 {
		if t, off := s.parkedSender(ch); t != nil {
			t.sentIdx = off.idx
			return off.v, true
		}
	}
	return nil, false // closed
}

func (s *scheduler) send(ch chan value, v value) {
	if ch == nil {
		s.yield(func() bool { return false })
	}
	cs := s.chanOf(ch)
	cur := s.cur
	s.hbRelease(ch)
	s.yieldOffering(func() bool { return cur.sentIdx >= 0 || s.sendReady(ch, cs) }, nil, []sendOffer{{ch, v, 0}})
	if cur.sentIdx >= 0 {
		cur.sentIdx = -1 // a receiver took the value while we were parked
		return
	}
	s.doSend(ch, cs, v)
}

func (s *scheduler) recv(ch chan value) (value, bool) {
	if ch == nil {
		s.yield(func() bool { return false })
	}
	cs := s.chanOf(ch)
	cur := s.cur
	s.yieldOffering(func() bool { return cur.got != nil || s.recvReady(ch, cs) }, []chan value{ch}, nil)
	if cur.got != nil {
		v := cur.got.v
		cur.got = nil
		s.hbAcquire(ch)
		return v, true
	}
	return s.doRecv(ch, cs)
}

func (s *scheduler) closeChan(ch chan value) {
	cs := s.chanOf(ch)
	s.yield(nil)
	if cs.closed {
		panic(targetPanic{iface{s.in.runtimeErrorString, "close of closed channel"}})
	}
	s.hbRelease(ch)
	cs.closed = true
}

func (s *scheduler) chanLen(ch chan value) int {
	if ch == nil {
		return 0
	}
	return len(s.chanOf(ch).buf)
}

func (s *scheduler) selectStmt(fr *frame, instr *ssa.Select) value {
	type selCase struct {
		ch   chan value
		cs   *chanState
		recv bool
	}
	cur := s.cur
	cases := make([]selCase, len(instr.States))
	var recvOn []chan value
	var sendOn []sendOffer
	for i, st := range instr.States {
		ch, _ := fr.get(st.Chan).(chan value)
		cases[i] = selCase{ch: ch, recv: st.Dir == types.RecvOnly}
		if ch != nil {
			cases[i].cs = s.chanOf(ch)
			if cases[i].recv {
				recvOn = append(recvOn, ch)
			} else {
				sendOn = append(sendOn, sendOffer{ch, fr.get(st.Send), i})
			}
		}
	}
	ready := func() []int {
		var out []int
		for i, c := range cases {
			if c.ch == nil {
				continue
			}
			if c.recv && s.recvReady(c.ch, c.cs) || !c.recv && s.sendReady(c.ch, c.cs) {
				out = append(out, i)
			}
		}
		return out
	}
	for _, offer := range sendOn {
		s.hbRelease(offer.ch)
	}
	if instr.Blocking {
		s.yieldOffering(func() bool { return cur.got != nil || cur.sentIdx >= 0 || len(ready()) > 0 }, recvOn, sendOn)
	} else {
		s.yield(nil)
	}
	chosen := -1
	recvOk := false
	var recv value
	switch {
	case cur.got != nil:
		for i, c := range cases {
			if c.recv && c.ch == cur.got.ch {
				chosen = i
			}
		}
		recv, recvOk = cur.got.v, true
		s.hbAcquire(cur.got.ch)
		cur.got = nil
	case cur.sentIdx >= 0:
		chosen = cur.sentIdx
		cur.sentIdx = -1
	default:
		rs := ready()
		if len(rs) > 0 {
			chosen = rs[0]
			if len(rs) > 1 {
				chosen = rs[s.in.chooseIndex(len(rs), "select")]
			}
			c := cases[chosen]
			if c.recv {
				recv, recvOk = s.doRecv(c.ch, c.cs)
			} else {
				s.doSend(c.ch, c.cs, fr.get(instr.States[chosen].Send))
			}
		}
	}
	r := tuple{chosen, recvOk}
	for i, st := range instr.States {
		if st.Dir == types.RecvOnly {
			var v value
			if i == chosen && recvOk {
				v = recv
			} else {
				v = zero(st.Chan.Type().Underlying().(*types.Chan).Elem())
			}
			r = append(r, v)
		}
	}
	return r
}

// ---- sync ---------------------------------------------------------------------------

func (s *scheduler) lock(ls *lockState) {
	s.yield(func() bool { return !ls.writer && ls.readers == 0 })
	ls.writer = true
	// a writer is ordered after earlier writers and earlier readers
	s.hbAcquire(ls)
	s.hbAcquire(readerSide{ls})
}

func (s *scheduler) rlock(ls *lockState) {
	s.yield(func() bool { return !ls.writer })
	ls.readers++
	// a reader is ordered after earlier writers only - not after other readers
	s.hbAcquire(ls)
}

func (s *scheduler) wgCounter(c *value) *int {
	n := s.wgs[c]
	if n == nil {
		n = new(int)
		s.wgs[c] = n
	}
	return n
}

func init() {
	rt := RTPath + "."
	// an atomic operation is a preemption point
	for k, f := range externals {
		if strings.Contains(k, "sync/atomic") {
			f := f
			externals[k] = func(fr *frame, args []value) value {
				s := fr.i.sch
				if s != nil && s.preempts > 0 {
					s.yield(nil)
				}
				if s != nil && len(args) > 0 {
					if c, ok := args[0].(*value); ok {
						s.hbAcquire(c)
						defer s.hbRelease(c)
					}
				}
				return f(fr, args)
			}
		}
	}
	// Schedule(preemptions): from here on goroutines are explored by the bounded scheduler.
	externals[rt+"Schedule"] = func(fr *frame, args []value) value {
		in := fr.i
		if in.sch == nil {
			in.sch = newScheduler(in, int(asInt64(args[0])))
		} else {
			in.sch.preempts = int(asInt64(args[0]))
		}
		return nil
	}
	externals["(*sync.WaitGroup).Add"] = func(fr *frame, args []value) value {
		in := fr.i
		if in.sch == nil {
			in.sch = newScheduler(in, 0)
		}
		in.sch.yield(nil)
		n := in.sch.wgCounter(cell(args[0]))
		if asInt64(args[1]) < 0 {
			in.sch.hbRelease(cell(args[0]))
		}
		*n += int(asInt64(args[1]))
		if *n < 0 {
			panic(targetPanic{iface{in.runtimeErrorString, "sync: negative WaitGroup counter"}})
		}
		return nil
	}
	externals["(*sync.WaitGroup).Done"] = func(fr *frame, args []value) value {
		return externals["(*sync.WaitGroup).Add"](fr, []value{args[0], int(-1)})
	}
	externals["(*sync.WaitGroup).Wait"] = func(fr *frame, args []value) value {
		in := fr.i
		if in.sch == nil {
			in.sch = newScheduler(in, 0)
		}
		n := in.sch.wgCounter(cell(args[0]))
		in.sch.yield(func() bool { return *n == 0 })
		in.sch.hbAcquire(cell(args[0]))
		return nil
	}
	externals["(*sync.WaitGroup).Go"] = func(fr *frame, args []value) value {
		in := fr.i
		if in.sch == nil {
			in.sch = newScheduler(in, 0)
		}
		n := in.sch.wgCounter(cell(args[0]))
		*n++
		f := args[1]
		done := func(fr2 *frame, a []value) value { return nil }
		_ = done
		in.sch.spawnWithExit(f, func() { *n-- })
		return nil
	}
}

// spawnWithExit starts fn() and runs atExit when it returns normally.
func (s *scheduler) spawnWithExit(fn value, atExit func()) {
	in := s.in
	t := &gthread{id: len(s.threads), wake: make(chan bool, 1), sentIdx: -1}
	s.threads = append(s.threads, t)
	s.hbFork(t)
	go func() {
		if ok := <-t.wake; !ok {
			return
		}
		defer func() {
			r := recover()
			if _, killed := r.(threadKilled); killed {
				return
			}
			t.done = true
			if r != nil {
				s.fatal = r
				if !isEngineControl(r) {
					if _, isTarget := r.(targetPanic); !isTarget {
						if msg, bug := describePanic(r); bug {
							s.fatal = engineAbort{"unsupported: " + msg}
						}
					}
				}
			} else {
				s.hbRelease(atExitKey{t})
				atExit()
			}
			s.exitThread(t)
		}()
		in.depth = 0
		call(in, nil, 0, fn, nil)
	}()
	s.yield(nil)
}

// ---- happens-before race detection --------------------------------------------------
//
// While more than one goroutine exists, every load and store of a heap cell, every map
// operation and every in-place append is checked against the happens-before order induced
// by the synchronisation operations (go, lock/unlock, channel send/receive/close,
// WaitGroup, Once, atomics): two accesses to the same cell by different goroutines, at least
// one of them a write, that are not ordered are a data race - whether or not the explored
// schedule put them next to each other.

type vclock []int

func (v vclock) get(i int) int {
	if i < len(v) {
		return v[i]
	}
	return 0
}

func joinVC(a, b vclock) vclock {
	n := len(a)
	if len(b) > n {
		n = len(b)
	}
	out := make(vclock, n)
	for i := range out {
		out[i] = a.get(i)
		if b.get(i) > out[i] {
			out[i] = b.get(i)
		}
	}
	return out
}

type raceCell struct {
	wT, wC int // last write: goroutine and its clock (wT < 0: none)
	wPos   string
	reads  vclock // last read clock per goroutine
	rPos   []string
}

type raceState struct {
	vcs   map[*gthread]vclock
	objs  map[any]vclock
	cells map[any]*raceCell
}

func (s *scheduler) race() *raceState {
	if s.rs == nil {
		s.rs = &raceState{vcs: map[*gthread]vclock{}, objs: map[any]vclock{}, cells: map[any]*raceCell{}}
	}
	return s.rs
}

func (s *scheduler) vcOf(t *gthread) vclock {
	rs := s.race()
	v := rs.vcs[t]
	if v == nil {
		v = make(vclock, t.id+1)
		v[t.id] = 1
		rs.vcs[t] = v
	}
	return v
}

func (s *scheduler) tick(t *gthread) {
	v := s.vcOf(t)
	for len(v) <= t.id {
		v = append(v, 0)
	}
	v[t.id]++
	s.race().vcs[t] = v
}

// hbRelease: what the running goroutine did so far happens before whoever acquires obj later.
func (s *scheduler) hbRelease(obj any) {
	if len(s.threads) < 2 {
		return
	}
	rs := s.race()
	rs.objs[obj] = joinVC(rs.objs[obj], s.vcOf(s.cur))
	s.tick(s.cur)
}

func (s *scheduler) hbAcquire(obj any) {
	if len(s.threads) < 2 {
		return
	}
	rs := s.race()
	if o := rs.objs[obj]; o != nil {
		rs.vcs[s.cur] = joinVC(s.vcOf(s.cur), o)
	}
}

func (s *scheduler) hbFork(child *gthread) {
	rs := s.race()
	parent := s.vcOf(s.cur)
	c := append(vclock{}, parent...)
	for len(c) <= child.id {
		c = append(c, 0)
	}
	c[child.id] = 1
	rs.vcs[child] = c
	s.tick(s.cur)
}

func (s *scheduler) access(key any, write bool) {
	if len(s.threads) < 2 || s.in.runningEnsure {
		return
	}
	rs := s.race()
	t := s.cur
	vc := s.vcOf(t)
	c := rs.cells[key]
	if c == nil {
		c = &raceCell{wT: -1}
		rs.cells[key] = c
	}
	pos := ""
	conflict := func(kind, otherPos string, other int) {
		if pos == "" {
			pos = s.in.curPos()
		}
		s.in.path.fail("race", fmt.Sprintf("data race: %s at %s by goroutine %d is not ordered with the access at %s by goroutine %d", kind, pos, t.id, otherPos, other), "race:"+pos, s.in.path.anyModel())
		panic(pathDone{})
	}
	if c.wT >= 0 && c.wT != t.id && c.wC > vc.get(c.wT) {
		k := "read"
		if write {
			k = "write"
		}
		conflict(k+" after an unordered write", c.wPos, c.wT)
	}
	if write {
		for u, rc := range c.reads {
			if u != t.id && rc > vc.get(u) {
				conflict("write after an unordered read", c.rPos[u], u)
			}
		}
		c.wT, c.wC, c.wPos = t.id, vc.get(t.id), s.in.curPos()
		c.reads, c.rPos = nil, nil
		return
	}
	for len(c.reads) <= t.id {
		c.reads = append(c.reads, 0)
		c.rPos = append(c.rPos, "")
	}
	c.reads[t.id] = vc.get(t.id)
	c.rPos[t.id] = s.in.curPos()
}

// raceAccess is called by the interpreter for loads and stores of heap cells.
func (in *interpreter) raceAccess(addr *value, write bool) {
	if in.sch != nil && addr != nil {
		in.sch.access(addr, write)
	}
}

func (in *interpreter) raceAccessMap(m *omap, write bool) {
	if in.sch != nil && m != nil {
		in.sch.access(m, write)
	}
}

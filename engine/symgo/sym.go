package symgo

// Symbolic scalars and the operations on them.

import (
	"fmt"
	"go/token"
	"go/types"

	"golang.org/x/tools/go/ssa"
)

type sym struct {
	k types.BasicKind
	e *term
}

func kindInfo(k types.BasicKind) (w int, signed bool) {
	switch k {
	case types.Bool, types.UntypedBool:
		return 0, false
	case types.Int8:
		return 8, true
	case types.Int16:
		return 16, true
	case types.Int32, types.UntypedRune:
		return 32, true
	case types.Int, types.Int64, types.UntypedInt:
		return 64, true
	case types.Uint8:
		return 8, false
	case types.Uint16:
		return 16, false
	case types.Uint32:
		return 32, false
	case types.Uint, types.Uint64, types.Uintptr:
		return 64, false
	}
	panic(fmt.Sprintf("kindInfo: unsupported kind %v", k))
}

func basicKind(t types.Type) types.BasicKind {
	return t.Underlying().(*types.Basic).Kind()
}

func isSym(v value) bool { _, ok := v.(sym); return ok }

// mkSymVal wraps a term as a value of kind k, folding constants back to Go scalars.
func mkSymVal(k types.BasicKind, e *term) value {
	if e.isConst() {
		return constOfKind(k, e.val)
	}
	return sym{k, e}
}

func constOfKind(k types.BasicKind, v uint64) value {
	switch k {
	case types.Bool, types.UntypedBool:
		return v != 0
	case types.Int, types.UntypedInt:
		return int(v)
	case types.Int8:
		return int8(v)
	case types.Int16:
		return int16(v)
	case types.Int32, types.UntypedRune:
		return int32(v)
	case types.Int64:
		return int64(v)
	case types.Uint:
		return uint(v)
	case types.Uint8:
		return uint8(v)
	case types.Uint16:
		return uint16(v)
	case types.Uint32:
		return uint32(v)
	case types.Uint64:
		return v
	case types.Uintptr:
		return uintptr(v)
	}
	panic(fmt.Sprintf("constOfKind: %v", k))
}

// toTerm converts a concrete or symbolic scalar to a term of kind k.
func toTerm(v value, k types.BasicKind) *term {
	if s, ok := v.(sym); ok {
		return s.e
	}
	w, _ := kindInfo(k)
	switch x := v.(type) {
	case bool:
		return mkBool(x)
	case int:
		return mkConst(uint64(x), w)
	case int8:
		return mkConst(uint64(x), w)
	case int16:
		return mkConst(uint64(x), w)
	case int32:
		return mkConst(uint64(x), w)
	case int64:
		return mkConst(uint64(x), w)
	case uint:
		return mkConst(uint64(x), w)
	case uint8:
		return mkConst(uint64(x), w)
	case uint16:
		return mkConst(uint64(x), w)
	case uint32:
		return mkConst(uint64(x), w)
	case uint64:
		return mkConst(x, w)
	case uintptr:
		return mkConst(uint64(x), w)
	}
	panic(fmt.Sprintf("toTerm: unsupported %T", v))
}

func valueKind(v value) types.BasicKind {
	switch x := v.(type) {
	case sym:
		return x.k
	case bool:
		return types.Bool
	case int:
		return types.Int
	case int8:
		return types.Int8
	case int16:
		return types.Int16
	case int32:
		return types.Int32
	case int64:
		return types.Int64
	case uint:
		return types.Uint
	case uint8:
		return types.Uint8
	case uint16:
		return types.Uint16
	case uint32:
		return types.Uint32
	case uint64:
		return types.Uint64
	case uintptr:
		return types.Uintptr
	}
	panic(fmt.Sprintf("valueKind: %T", v))
}

func isScalar(v value) bool {
	switch v.(type) {
	case sym, bool, int, int8, int16, int32, int64, uint, uint8, uint16, uint32, uint64, uintptr:
		return true
	}
	return false
}

func symBinop(in *interpreter, op token.Token, t types.Type, x, y value) value {
	kx := valueKind(x)
	if _, ok := x.(sym); !ok {
		// take the kind from the symbolic side when the other is an untyped-ish constant
		if sy, ok := y.(sym); ok && op != token.SHL && op != token.SHR {
			kx = sy.k
		}
	}
	w, signed := kindInfo(kx)
	a := toTerm(x, kx)
	var b *term
	if op == token.SHL || op == token.SHR {
		ky := valueKind(y)
		wy, sy := kindInfo(ky)
		b = toTerm(y, ky)
		if sy {
			// negative shift count panics
			if in.path.decide(mkCmp("bvslt", b, mkConst(0, wy))) {
				panic("negative shift amount")
			}
		}
		if wy < w {
			b = mkZext(w, b)
		} else if wy > w {
			hi := mkExtract(wy-1, w, b)
			lo := mkExtract(w-1, 0, b)
			b = mkIte(mkEq(hi, mkConst(0, wy-w)), lo, mkConst(uint64(w), w))
		}
	} else {
		b = toTerm(y, kx)
	}
	bv := func(s string) value { return mkSymVal(kx, mkBV(s, w, a, b)) }
	bo := func(s string) value { return mkSymVal(types.Bool, mkCmp(s, a, b)) }
	if w == 0 { // bool operands
		switch op {
		case token.EQL:
			return mkSymVal(types.Bool, mkEq(a, b))
		case token.NEQ:
			return mkSymVal(types.Bool, mkNot(mkEq(a, b)))
		case token.LAND, token.AND:
			return mkSymVal(types.Bool, mkAnd(a, b))
		case token.LOR, token.OR:
			return mkSymVal(types.Bool, mkOr(a, b))
		}
		panic("unsupported symBinop bool op " + op.String())
	}
	switch op {
	case token.ADD:
		return bv("bvadd")
	case token.SUB:
		return bv("bvsub")
	case token.MUL:
		return bv("bvmul")
	case token.QUO, token.REM:
		if in.path.decide(mkEq(b, mkConst(0, w))) {
			panic("integer divide by zero")
		}
		if op == token.QUO {
			if signed {
				return bv("bvsdiv")
			}
			return bv("bvudiv")
		}
		if signed {
			return bv("bvsrem")
		}
		return bv("bvurem")
	case token.AND:
		return bv("bvand")
	case token.OR:
		return bv("bvor")
	case token.XOR:
		return bv("bvxor")
	case token.AND_NOT:
		return mkSymVal(kx, mkBV("bvand", w, a, mkBVNot(b)))
	case token.SHL:
		return bv("bvshl")
	case token.SHR:
		if signed {
			return bv("bvashr")
		}
		return bv("bvlshr")
	case token.EQL:
		return mkSymVal(types.Bool, mkEq(a, b))
	case token.NEQ:
		return mkSymVal(types.Bool, mkNot(mkEq(a, b)))
	case token.LSS:
		if signed {
			return bo("bvslt")
		}
		return bo("bvult")
	case token.LEQ:
		if signed {
			return bo("bvsle")
		}
		return bo("bvule")
	case token.GTR:
		if signed {
			return bo("bvsgt")
		}
		return bo("bvugt")
	case token.GEQ:
		if signed {
			return bo("bvsge")
		}
		return bo("bvuge")
	}
	panic("unsupported symBinop op " + op.String())
}

func symConv(tdst types.Type, x sym) value {
	bt, ok := tdst.Underlying().(*types.Basic)
	if !ok {
		panic(fmt.Sprintf("unsupported conversion of symbolic scalar to %v", tdst))
	}
	kd := bt.Kind()
	if kd == types.String {
		panic("unsupported: string(symbolic integer)")
	}
	if bt.Info()&types.IsFloat != 0 || bt.Info()&types.IsComplex != 0 {
		panic("unsupported: symbolic integer to float")
	}
	wd, _ := kindInfo(kd)
	ws, ssigned := kindInfo(x.k)
	if ws == 0 || wd == 0 {
		if ws == wd {
			return sym{kd, x.e}
		}
		panic("unsupported symConv bool")
	}
	switch {
	case wd == ws:
		return sym{kd, x.e}
	case wd < ws:
		return mkSymVal(kd, mkExtract(wd-1, 0, x.e))
	default:
		if ssigned {
			return mkSymVal(kd, mkSext(wd, x.e))
		}
		return mkSymVal(kd, mkZext(wd, x.e))
	}
}

// truth turns a bool-or-symbolic-bool into a Go bool, deciding if necessary.
func (in *interpreter) truth(v value) bool {
	switch x := v.(type) {
	case bool:
		return x
	case sym:
		return in.path.decide(x.e)
	}
	panic(fmt.Sprintf("truth: %T", v))
}

// concreteInt returns the int64 value of an integer, concretising symbolic ones by forking.
func (in *interpreter) concreteInt(v value) int64 {
	if s, ok := v.(sym); ok {
		w, signed := kindInfo(s.k)
		c := in.path.concretize(s)
		if signed {
			return sext(c, w)
		}
		return int64(c)
	}
	return asInt64(v)
}

func (in *interpreter) concreteVal(v value) value {
	if s, ok := v.(sym); ok {
		return constOfKind(s.k, in.path.concretize(s))
	}
	return v
}

// boolean helpers on bool-or-sym values
func boolAnd(a, b value) value {
	if x, ok := a.(bool); ok {
		if !x {
			return false
		}
		return b
	}
	if y, ok := b.(bool); ok {
		if !y {
			return false
		}
		return a
	}
	return mkSymVal(types.Bool, mkAnd(a.(sym).e, b.(sym).e))
}

func boolOr(a, b value) value {
	if x, ok := a.(bool); ok {
		if x {
			return true
		}
		return b
	}
	if y, ok := b.(bool); ok {
		if y {
			return true
		}
		return a
	}
	return mkSymVal(types.Bool, mkOr(a.(sym).e, b.(sym).e))
}

func boolNot(a value) value {
	if x, ok := a.(bool); ok {
		return !x
	}
	return mkSymVal(types.Bool, mkNot(a.(sym).e))
}

func boolTerm(a value) *term {
	if x, ok := a.(bool); ok {
		return mkBool(x)
	}
	return a.(sym).e
}

// eqValue compares two values of static type t, yielding a bool or a symbolic bool.
// It never forks.
func eqValue(in *interpreter, t types.Type, x, y value) value {
	switch x := x.(type) {
	case sym:
		return mkSymVal(types.Bool, mkEq(x.e, toTerm(y, x.k)))
	case symstr:
		return strEq(x, toSymstr(y))
	case string:
		if ys, ok := y.(symstr); ok {
			return strEq(toSymstr(x), ys)
		}
		return x == y.(string)
	case structure:
		ys := y.(structure)
		var r value = true
		var st *types.Struct
		if t != nil {
			st, _ = t.Underlying().(*types.Struct)
		}
		for i := range x {
			var ft types.Type
			if st != nil {
				f := st.Field(i)
				if f.Name() == "_" {
					continue
				}
				ft = f.Type()
			}
			r = boolAnd(r, eqValue(in, ft, x[i], ys[i]))
			if b, ok := r.(bool); ok && !b {
				return false
			}
		}
		return r
	case array:
		ya := y.(array)
		var et types.Type
		if t != nil {
			if at, ok := t.Underlying().(*types.Array); ok {
				et = at.Elem()
			}
		}
		var r value = true
		for i := range x {
			r = boolAnd(r, eqValue(in, et, x[i], ya[i]))
			if b, ok := r.(bool); ok && !b {
				return false
			}
		}
		return r
	case iface:
		yi := y.(iface)
		if x.t == nil || yi.t == nil {
			return x.t == nil && yi.t == nil
		}
		if !types.Identical(x.t, yi.t) {
			return false
		}
		if !types.Comparable(x.t) {
			panic(targetPanic{iface{in.runtimeErrorString, "runtime error: comparing uncomparable type " + x.t.String()}})
		}
		return eqValue(in, x.t, x.v, yi.v)
	}
	if sy, ok := y.(sym); ok {
		return mkSymVal(types.Bool, mkEq(toTerm(x, sy.k), sy.e))
	}
	return equals(t, x, y)
}

// ---------------------------------------------------------------- symbolic index

// symElemPtr: address of arr[idx] with symbolic idx.
type symElemPtr struct {
	arr []value
	idx sym
}

func (p symElemPtr) boundsCheck(in *interpreter) {
	w, signed := kindInfo(p.idx.k)
	n := len(p.arr)
	var inb *term
	if w < 64 && uint64(n) > mask(w) && !signed {
		return // every value of the index type is in range
	}
	if signed {
		inb = mkAnd(mkCmp("bvsge", p.idx.e, mkConst(0, w)), mkCmp("bvslt", p.idx.e, mkConst(uint64(n), w)))
		if w < 64 && int64(n) > int64(mask(w)>>1) {
			inb = mkCmp("bvsge", p.idx.e, mkConst(0, w))
		}
	} else {
		inb = mkCmp("bvult", p.idx.e, mkConst(uint64(n), w))
	}
	if !in.path.decide(inb) {
		panic(fmt.Sprintf("index out of range [symbolic] with length %d", n))
	}
}

func (p symElemPtr) load(in *interpreter) value {
	p.boundsCheck(in)
	w, _ := kindInfo(p.idx.k)
	n := len(p.arr)
	if w < 64 && uint64(n) > mask(w)+1 {
		n = int(mask(w) + 1)
	}
	allScalar := n <= 512
	if allScalar {
		for i := 0; i < n; i++ {
			if !isScalar(p.arr[i]) {
				allScalar = false
				break
			}
		}
	}
	if !allScalar {
		return *p.concretePtr(in)
	}
	k := valueKind(p.arr[0])
	res := toTerm(p.arr[n-1], k)
	for i := n - 2; i >= 0; i-- {
		res = mkIte(mkEq(p.idx.e, mkConst(uint64(i), w)), toTerm(p.arr[i], k), res)
	}
	return mkSymVal(k, res)
}

// concretePtr forks over the feasible index values and returns the element address.
func (p symElemPtr) concretePtr(in *interpreter) *value {
	p.boundsCheck(in)
	i := in.concreteInt(p.idx)
	return &p.arr[i]
}

var _ = ssa.BuilderMode(0)

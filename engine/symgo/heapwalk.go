package symgo

// Type-directed walks over the engine heap for the meta-intrinsics of verifrt
// (Disjoint, EmptySlices, ReachablePointers, IsPointer).

import (
	"go/types"
	"unsafe"
)

type heapVisitor struct {
	in       *interpreter
	seen     map[*value]bool
	exempt   map[string]bool
	onPtr    func(p *value, pointee types.Type)
	onSlice  func(cell *value, s []value, elem types.Type) // cell holding the slice (may be nil)
	onMap    func(m *omap)
	onMapT   func(m *omap, t types.Type)
	maxDepth int
}

func namedKey(t types.Type) string {
	if n, ok := t.(*types.Named); ok && n.Obj().Pkg() != nil {
		return n.Obj().Pkg().Path() + "." + n.Obj().Name()
	}
	return ""
}

func (h *heapVisitor) walk(v value, t types.Type, holder *value, depth int) {
	if depth > 2000 || t == nil {
		return
	}
	switch ut := t.Underlying().(type) {
	case *types.Pointer:
		p, ok := v.(*value)
		if !ok || p == nil || h.seen[p] {
			return
		}
		if h.exempt[namedKey(ut.Elem())] {
			return
		}
		h.seen[p] = true
		if h.onPtr != nil {
			h.onPtr(p, ut.Elem())
		}
		h.walk(*p, ut.Elem(), p, depth+1)
	case *types.Struct:
		s, ok := v.(structure)
		if !ok {
			return
		}
		for i := range s {
			h.walk(s[i], ut.Field(i).Type(), &s[i], depth+1)
		}
	case *types.Array:
		a, ok := v.(array)
		if !ok {
			return
		}
		for i := range a {
			h.walk(a[i], ut.Elem(), &a[i], depth+1)
		}
	case *types.Slice:
		s, ok := v.([]value)
		if !ok || s == nil {
			return
		}
		if h.onSlice != nil {
			h.onSlice(holder, s, ut.Elem())
		}
		for i := range s {
			h.walk(s[i], ut.Elem(), &s[i], depth+1)
		}
	case *types.Map:
		m, ok := v.(*omap)
		if !ok || m == nil {
			return
		}
		if h.onMap != nil {
			h.onMap(m)
		}
		if h.onMapT != nil {
			h.onMapT(m, t)
		}
		for _, e := range m.ents {
			if !e.dead {
				h.walk(e.key, ut.Key(), nil, depth+1)
				h.walk(e.val, ut.Elem(), nil, depth+1)
			}
		}
	case *types.Interface:
		it, ok := v.(iface)
		if !ok || it.t == nil {
			return
		}
		h.walk(it.v, it.t, nil, depth+1)
	}
}

// sliceBacking identifies the backing array of a slice (also for length 0 with capacity).
func sliceBacking(s []value) unsafe.Pointer {
	if cap(s) == 0 {
		return nil
	}
	return unsafe.Pointer(&s[:cap(s)][cap(s)-1]) // the last slot is shared by every view of the array tail
}

func exemptSet(args value) map[string]bool {
	out := map[string]bool{}
	if l, ok := args.([]value); ok {
		for _, a := range l {
			out[goString(a)] = true
		}
	}
	return out
}

func init() {
	rt := RTPath + "."
	// Disjoint(a, b any, exemptTypes ...string) bool: no pointer cell, slice backing array
	// or map object is reachable from both a and b (pointers to exempt named types are
	// not followed: immutable, interned values).
	externals[rt+"Disjoint"] = func(fr *frame, args []value) value {
		ex := exemptSet(args[2])
		collect := func(root value) (map[*value]bool, map[unsafe.Pointer]bool, map[*omap]bool) {
			ptrs, backs, maps := map[*value]bool{}, map[unsafe.Pointer]bool{}, map[*omap]bool{}
			h := &heapVisitor{in: fr.i, seen: ptrs, exempt: ex}
			h.onSlice = func(_ *value, s []value, _ types.Type) {
				if b := sliceBacking(s); b != nil {
					backs[b] = true
				}
			}
			h.onMap = func(m *omap) { maps[m] = true }
			it := root.(iface)
			h.walk(it.v, it.t, nil, 0)
			return ptrs, backs, maps
		}
		p1, b1, m1 := collect(args[0])
		p2, b2, m2 := collect(args[1])
		for p := range p1 {
			if p2[p] {
				return false
			}
		}
		for b := range b1 {
			if b2[b] {
				return false
			}
		}
		for m := range m1 {
			if m2[m] {
				return false
			}
		}
		return true
	}
	// EmptySlices(root any, exemptTypes ...string): every slice reachable from root is cut
	// to length zero in place, keeping its capacity (a list emptied by removing its items).
	externals[rt+"EmptySlices"] = func(fr *frame, args []value) value {
		h := &heapVisitor{in: fr.i, seen: map[*value]bool{}, exempt: exemptSet(args[1])}
		type cut struct {
			cell *value
			s    []value
		}
		var cuts []cut
		h.onSlice = func(cell *value, s []value, _ types.Type) {
			if cell != nil && len(s) > 0 {
				cuts = append(cuts, cut{cell, s})
			}
		}
		it := args[0].(iface)
		h.walk(it.v, it.t, nil, 0)
		for _, c := range cuts {
			*c.cell = c.s[:0]
		}
		return nil
	}
	// EmptyNthSlice(root any, n int, exemptTypes ...string) bool: only the n-th non-empty
	// slice in walk order is cut to length zero (false: there are fewer).
	externals[rt+"EmptyNthSlice"] = func(fr *frame, args []value) value {
		h := &heapVisitor{in: fr.i, seen: map[*value]bool{}, exempt: exemptSet(args[2])}
		n, idx := int(asInt64(args[1])), 0
		var cell *value
		var cutS []value
		h.onSlice = func(c *value, s []value, _ types.Type) {
			if c != nil && len(s) > 0 {
				if idx == n {
					cell, cutS = c, s
				}
				idx++
			}
		}
		it := args[0].(iface)
		h.walk(it.v, it.t, nil, 0)
		if cell == nil {
			return false
		}
		*cell = cutS[:0]
		return true
	}
	// NilNthElement(root any, n int, pkgPath string) bool: the n-th list element (walk
	// order) that is a non-nil pointer to a named struct of package pkgPath - directly or
	// inside an interface - is replaced by a typed nil pointer of the same type.
	externals[rt+"NilNthElement"] = func(fr *frame, args []value) value {
		h := &heapVisitor{in: fr.i, seen: map[*value]bool{}, exempt: map[string]bool{}}
		n, idx, pkg := int(asInt64(args[1])), 0, goString(args[2])
		var cell *value
		var repl value
		ofPkg := func(t types.Type) bool {
			pt, ok := t.Underlying().(*types.Pointer)
			if !ok {
				return false
			}
			nm, ok := pt.Elem().(*types.Named)
			if !ok || nm.Obj().Pkg() == nil || nm.Obj().Pkg().Path() != pkg {
				return false
			}
			_, isStruct := nm.Underlying().(*types.Struct)
			return isStruct
		}
		h.onSlice = func(_ *value, s []value, elem types.Type) {
			for i := range s {
				var r value
				switch e := s[i].(type) {
				case *value:
					if e == nil || !ofPkg(elem) {
						continue
					}
					r = (*value)(nil)
				case iface:
					if p, ok := e.v.(*value); !ok || p == nil || e.t == nil || !ofPkg(e.t) {
						continue
					}
					r = iface{t: e.t, v: (*value)(nil)}
				default:
					continue
				}
				if idx == n {
					cell, repl = &s[i], r
				}
				idx++
			}
		}
		it := args[0].(iface)
		h.walk(it.v, it.t, nil, 0)
		if cell == nil {
			return false
		}
		*cell = repl
		return true
	}
	// ReachablePointers(root any, pkgPath string) []any: every pointer to a named struct
	// type of package pkgPath reachable from root, each once, as interface values.
	externals[rt+"ReachablePointers"] = func(fr *frame, args []value) value {
		pkg := goString(args[1])
		var out []value
		h := &heapVisitor{in: fr.i, seen: map[*value]bool{}, exempt: map[string]bool{}}
		h.onPtr = func(p *value, pointee types.Type) {
			if n, ok := pointee.(*types.Named); ok && n.Obj().Pkg() != nil && n.Obj().Pkg().Path() == pkg {
				if _, isStruct := n.Underlying().(*types.Struct); isStruct {
					out = append(out, iface{t: types.NewPointer(n), v: p})
				}
			}
		}
		it := args[0].(iface)
		h.walk(it.v, it.t, nil, 0)
		return out
	}
	// CountMaps(root any, typeName string) int: the non-nil maps of the named map type
	// ("pkg/path.Name") reachable from root.
	externals[rt+"CountMaps"] = func(fr *frame, args []value) value {
		name := goString(args[1])
		n := 0
		h := &heapVisitor{in: fr.i, seen: map[*value]bool{}, exempt: map[string]bool{}}
		h.onMapT = func(m *omap, t types.Type) {
			if namedKey(t) == name {
				n++
			}
		}
		it := args[0].(iface)
		h.walk(it.v, it.t, nil, 0)
		return n
	}
	externals[rt+"IsPointer"] = func(fr *frame, args []value) value {
		it, ok := args[0].(iface)
		if !ok || it.t == nil {
			return false
		}
		_, isPtr := it.t.Underlying().(*types.Pointer)
		return isPtr
	}
}

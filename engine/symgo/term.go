package symgo

// SMT terms: a small DAG with light-weight simplification. Sorts are Bool (w == 0)
// and fixed-width bit-vectors (w in 8,16,32,64 and the odd widths produced by
// extract/concat).

import (
	"fmt"
	"math/bits"
	"strings"
	"sync"
	"sync/atomic"
)

type term struct {
	op   string // "const", "var", or an SMT-LIB operator ("bvadd", "(_ extract 7 0)", ...)
	args []*term
	w    int // 0 = Bool
	val  uint64
	name string
	id   uint64
	size int // number of nodes as a tree (saturating)
	vars []*term
	varsDone bool
}

// varsOf returns the variables occurring in t (cached; terms are immutable).
func (t *term) varsOf() []*term {
	if t.varsDone {
		return t.vars
	}
	var out []*term
	switch t.op {
	case "const":
	case "var":
		out = []*term{t}
	default:
		seen := map[*term]bool{}
		for _, a := range t.args {
			for _, v := range a.varsOf() {
				if !seen[v] {
					seen[v] = true
					out = append(out, v)
				}
			}
		}
	}
	t.vars, t.varsDone = out, true
	return out
}

var termCounter uint64

// Hash-consing: structurally equal terms are the same pointer (per process), which makes
// syntactic checks and the branch-query cache cheap. The table is sharded to keep
// contention between workers low, and is dropped between harnesses (ResetTerms).
type termKey struct {
	op      string
	w       int
	a, b, c *term
	val     uint64
}

const termShards = 64

var termTab [termShards]struct {
	mu sync.Mutex
	m  map[termKey]*term
}

func init() { ResetTerms() }

// ResetTerms drops the intern table (call only when no exploration is running).
func ResetTerms() {
	for i := range termTab {
		termTab[i].mu.Lock()
		termTab[i].m = map[termKey]*term{}
		termTab[i].mu.Unlock()
	}
}

func intern(k termKey, mk func() *term) *term {
	h := uint64(len(k.op))*31 + uint64(k.w)*131 + k.val*2654435761
	if k.a != nil {
		h = h*1099511628211 + k.a.id
	}
	if k.b != nil {
		h = h*1099511628211 + k.b.id
	}
	if k.c != nil {
		h = h*1099511628211 + k.c.id
	}
	for i := 0; i < len(k.op); i++ {
		h = h*131 + uint64(k.op[i])
	}
	sh := &termTab[h%termShards]
	sh.mu.Lock()
	t, ok := sh.m[k]
	if !ok {
		t = mk()
		sh.m[k] = t
	}
	sh.mu.Unlock()
	return t
}

func newTerm(op string, w int, args ...*term) *term {
	k := termKey{op: op, w: w}
	switch len(args) {
	case 3:
		k.c = args[2]
		fallthrough
	case 2:
		k.b = args[1]
		fallthrough
	case 1:
		k.a = args[0]
	}
	return intern(k, func() *term {
		sz := 1
		for _, a := range args {
			sz += a.size
			if sz > 1<<30 {
				sz = 1 << 30
			}
		}
		return &term{op: op, w: w, args: args, id: atomic.AddUint64(&termCounter, 1), size: sz}
	})
}

func mask(w int) uint64 {
	if w >= 64 {
		return ^uint64(0)
	}
	return (uint64(1) << uint(w)) - 1
}

var (
	termTrue  = &term{op: "const", w: 0, val: 1, size: 1, id: 1<<62 + 1}
	termFalse = &term{op: "const", w: 0, val: 0, size: 1, id: 1<<62 + 2}
)

func mkConst(v uint64, w int) *term {
	if w == 0 {
		return mkBool(v != 0)
	}
	v &= mask(w)
	return intern(termKey{op: "const", w: w, val: v}, func() *term {
		return &term{op: "const", w: w, val: v, size: 1, id: atomic.AddUint64(&termCounter, 1)}
	})
}

func mkBool(b bool) *term {
	if b {
		return termTrue
	}
	return termFalse
}

func mkVar(name string, w int) *term {
	return intern(termKey{op: "var:" + name, w: w}, func() *term {
		return &term{op: "var", w: w, name: name, id: atomic.AddUint64(&termCounter, 1), size: 1}
	})
}

func (t *term) isConst() bool { return t.op == "const" }
func (t *term) isTrue() bool  { return t.op == "const" && t.w == 0 && t.val != 0 }
func (t *term) isFalse() bool { return t.op == "const" && t.w == 0 && t.val == 0 }

// same reports syntactic identity (pointer equality, equal constants or equal variables).
func same(a, b *term) bool {
	if a == b {
		return true
	}
	if a.op == "const" && b.op == "const" {
		return a.w == b.w && a.val == b.val
	}
	return false
}

func mkNot(t *term) *term {
	if t.op == "const" {
		return mkBool(t.val == 0)
	}
	if t.op == "not" {
		return t.args[0]
	}
	return newTerm("not", 0, t)
}

func mkAnd(a, b *term) *term {
	switch {
	case a.isFalse() || b.isFalse():
		return termFalse
	case a.isTrue():
		return b
	case b.isTrue():
		return a
	case same(a, b):
		return a
	}
	if a.id > b.id {
		a, b = b, a
	}
	return newTerm("and", 0, a, b)
}

func mkOr(a, b *term) *term {
	switch {
	case a.isTrue() || b.isTrue():
		return termTrue
	case a.isFalse():
		return b
	case b.isFalse():
		return a
	case same(a, b):
		return a
	}
	if a.id > b.id {
		a, b = b, a
	}
	return newTerm("or", 0, a, b)
}

func mkEq(a, b *term) *term {
	if a.w != b.w {
		panic(fmt.Sprintf("mkEq: width mismatch %d vs %d", a.w, b.w))
	}
	if a.isConst() && b.isConst() {
		return mkBool(a.val == b.val)
	}
	if same(a, b) {
		return termTrue
	}
	if a.w == 0 {
		if a.isTrue() {
			return b
		}
		if b.isTrue() {
			return a
		}
		if a.isFalse() {
			return mkNot(b)
		}
		if b.isFalse() {
			return mkNot(a)
		}
	}
	// (= (zero_extend k x) const): decide on the high bits
	if b.isConst() && strings.HasPrefix(a.op, "(_ zero_extend") {
		in := a.args[0]
		if b.val&^mask(in.w) != 0 {
			return termFalse
		}
		return mkEq(in, mkConst(b.val, in.w))
	}
	if a.isConst() && strings.HasPrefix(b.op, "(_ zero_extend") {
		return mkEq(b, a)
	}
	if a.id > b.id {
		a, b = b, a
	}
	return newTerm("=", 0, a, b)
}

func mkIte(c, a, b *term) *term {
	if c.isTrue() {
		return a
	}
	if c.isFalse() {
		return b
	}
	if same(a, b) {
		return a
	}
	if a.w == 0 {
		if a.isTrue() && b.isFalse() {
			return c
		}
		if a.isFalse() && b.isTrue() {
			return mkNot(c)
		}
	}
	return newTerm("ite", a.w, c, a, b)
}

func sext(v uint64, w int) int64 {
	if w >= 64 {
		return int64(v)
	}
	s := uint(64 - w)
	return int64(v<<s) >> s
}

// mkBV builds a bit-vector operation with constant folding.
func mkBV(op string, w int, a, b *term) *term {
	if a.isConst() && b.isConst() {
		x, y := a.val, b.val
		switch op {
		case "bvadd":
			return mkConst(x+y, w)
		case "bvsub":
			return mkConst(x-y, w)
		case "bvmul":
			return mkConst(x*y, w)
		case "bvand":
			return mkConst(x&y, w)
		case "bvor":
			return mkConst(x|y, w)
		case "bvxor":
			return mkConst(x^y, w)
		case "bvshl":
			if y >= uint64(w) {
				return mkConst(0, w)
			}
			return mkConst(x<<y, w)
		case "bvlshr":
			if y >= uint64(w) {
				return mkConst(0, w)
			}
			return mkConst(x>>y, w)
		case "bvashr":
			if y >= uint64(w) {
				y = uint64(w - 1)
			}
			return mkConst(uint64(sext(x, w)>>y), w)
		case "bvudiv":
			if y != 0 {
				return mkConst(x/y, w)
			}
		case "bvurem":
			if y != 0 {
				return mkConst(x%y, w)
			}
		case "bvsdiv":
			if y != 0 && !(sext(x, w) == -1<<uint(w-1) && sext(y, w) == -1) {
				return mkConst(uint64(sext(x, w)/sext(y, w)), w)
			}
		case "bvsrem":
			if y != 0 && !(sext(x, w) == -1<<uint(w-1) && sext(y, w) == -1) {
				return mkConst(uint64(sext(x, w)%sext(y, w)), w)
			}
		}
	}
	// identities
	switch op {
	case "bvadd", "bvor", "bvxor":
		if a.isConst() && a.val == 0 {
			return b
		}
		if b.isConst() && b.val == 0 {
			return a
		}
	case "bvsub", "bvshl", "bvlshr", "bvashr":
		if b.isConst() && b.val == 0 {
			return a
		}
	case "bvand":
		if (a.isConst() && a.val == 0) || (b.isConst() && b.val == 0) {
			return mkConst(0, w)
		}
		if a.isConst() && a.val == mask(w) {
			return b
		}
		if b.isConst() && b.val == mask(w) {
			return a
		}
	case "bvmul":
		if a.isConst() && a.val == 1 {
			return b
		}
		if b.isConst() && b.val == 1 {
			return a
		}
		if (a.isConst() && a.val == 0) || (b.isConst() && b.val == 0) {
			return mkConst(0, w)
		}
	}
	// shifts by constants on zero-extended small values stay as they are; solver handles them.
	return newTerm(op, w, a, b)
}

func mkCmp(op string, a, b *term) *term {
	if a.w != b.w {
		panic(fmt.Sprintf("mkCmp %s: width mismatch %d vs %d", op, a.w, b.w))
	}
	if a.isConst() && b.isConst() {
		x, y := a.val, b.val
		sx, sy := sext(x, a.w), sext(y, a.w)
		switch op {
		case "bvult":
			return mkBool(x < y)
		case "bvule":
			return mkBool(x <= y)
		case "bvugt":
			return mkBool(x > y)
		case "bvuge":
			return mkBool(x >= y)
		case "bvslt":
			return mkBool(sx < sy)
		case "bvsle":
			return mkBool(sx <= sy)
		case "bvsgt":
			return mkBool(sx > sy)
		case "bvsge":
			return mkBool(sx >= sy)
		}
	}
	if same(a, b) {
		switch op {
		case "bvult", "bvugt", "bvslt", "bvsgt":
			return termFalse
		default:
			return termTrue
		}
	}
	// comparisons of zero-extended values against constants that cannot be reached
	if b.isConst() && strings.HasPrefix(a.op, "(_ zero_extend") {
		in := a.args[0]
		if b.val > mask(in.w) && sext(b.val, b.w) >= 0 {
			switch op {
			case "bvult", "bvule", "bvslt", "bvsle":
				return termTrue
			case "bvugt", "bvuge", "bvsgt", "bvsge":
				return termFalse
			}
		}
	}
	return newTerm(op, 0, a, b)
}

func mkExtract(hi, lo int, a *term) *term {
	w := hi - lo + 1
	if a.isConst() {
		return mkConst(a.val>>uint(lo), w)
	}
	if lo == 0 && w == a.w {
		return a
	}
	if lo == 0 && (strings.HasPrefix(a.op, "(_ zero_extend") || strings.HasPrefix(a.op, "(_ sign_extend")) {
		in := a.args[0]
		if in.w == w {
			return in
		}
		if in.w > w {
			return mkExtract(hi, lo, in)
		}
	}
	return newTerm(fmt.Sprintf("(_ extract %d %d)", hi, lo), w, a)
}

func mkZext(to int, a *term) *term {
	if a.w == to {
		return a
	}
	if a.isConst() {
		return mkConst(a.val, to)
	}
	return newTerm(fmt.Sprintf("(_ zero_extend %d)", to-a.w), to, a)
}

func mkSext(to int, a *term) *term {
	if a.w == to {
		return a
	}
	if a.isConst() {
		return mkConst(uint64(sext(a.val, a.w)), to)
	}
	return newTerm(fmt.Sprintf("(_ sign_extend %d)", to-a.w), to, a)
}

func mkBVNot(a *term) *term {
	if a.isConst() {
		return mkConst(^a.val, a.w)
	}
	return newTerm("bvnot", a.w, a)
}

func mkBVNeg(a *term) *term {
	if a.isConst() {
		return mkConst(-a.val, a.w)
	}
	return newTerm("bvneg", a.w, a)
}

// mkPopcount: sum of bits, as an ordinary term (used by math/bits intrinsics).
func mkPopcount(a *term) *term {
	if a.isConst() {
		return mkConst(uint64(bits.OnesCount64(a.val)), a.w)
	}
	res := mkConst(0, a.w)
	for i := 0; i < a.w; i++ {
		res = mkBV("bvadd", a.w, res, mkZext(a.w, mkExtract(i, i, a)))
	}
	return res
}

// ---------------------------------------------------------------- evaluation under a model

func (t *term) eval(m map[string]uint64, memo map[*term]uint64) (uint64, bool) {
	switch t.op {
	case "const":
		return t.val, true
	case "var":
		v, ok := m[t.name]
		return v & maskb(t.w), ok
	}
	if v, ok := memo[t]; ok {
		return v, true
	}
	vs := make([]uint64, len(t.args))
	for i, a := range t.args {
		v, ok := a.eval(m, memo)
		if !ok {
			return 0, false
		}
		vs[i] = v
	}
	var r uint64
	w := t.w
	aw := 0
	if len(t.args) > 0 {
		aw = t.args[0].w
	}
	b2u := func(b bool) uint64 {
		if b {
			return 1
		}
		return 0
	}
	switch t.op {
	case "not":
		r = b2u(vs[0] == 0)
	case "and":
		r = b2u(vs[0] != 0 && vs[1] != 0)
	case "or":
		r = b2u(vs[0] != 0 || vs[1] != 0)
	case "=":
		r = b2u(vs[0] == vs[1])
	case "ite":
		if vs[0] != 0 {
			r = vs[1]
		} else {
			r = vs[2]
		}
	case "bvadd":
		r = vs[0] + vs[1]
	case "bvsub":
		r = vs[0] - vs[1]
	case "bvmul":
		r = vs[0] * vs[1]
	case "bvand":
		r = vs[0] & vs[1]
	case "bvor":
		r = vs[0] | vs[1]
	case "bvxor":
		r = vs[0] ^ vs[1]
	case "bvnot":
		r = ^vs[0]
	case "bvneg":
		r = -vs[0]
	case "bvshl":
		if vs[1] < uint64(w) {
			r = vs[0] << vs[1]
		}
	case "bvlshr":
		if vs[1] < uint64(w) {
			r = vs[0] >> vs[1]
		}
	case "bvashr":
		y := vs[1]
		if y >= uint64(w) {
			y = uint64(w - 1)
		}
		r = uint64(sext(vs[0], w) >> y)
	case "bvudiv":
		if vs[1] == 0 {
			r = mask(w)
		} else {
			r = vs[0] / vs[1]
		}
	case "bvurem":
		if vs[1] == 0 {
			r = vs[0]
		} else {
			r = vs[0] % vs[1]
		}
	case "bvsdiv":
		x, y := sext(vs[0], w), sext(vs[1], w)
		switch {
		case y == 0:
			if x >= 0 {
				r = mask(w)
			} else {
				r = 1
			}
		case y == -1:
			r = uint64(-x)
		default:
			r = uint64(x / y)
		}
	case "bvsrem":
		x, y := sext(vs[0], w), sext(vs[1], w)
		switch {
		case y == 0:
			r = uint64(x)
		case y == -1:
			r = 0
		default:
			r = uint64(x % y)
		}
	case "bvult":
		r = b2u(vs[0] < vs[1])
	case "bvule":
		r = b2u(vs[0] <= vs[1])
	case "bvugt":
		r = b2u(vs[0] > vs[1])
	case "bvuge":
		r = b2u(vs[0] >= vs[1])
	case "bvslt":
		r = b2u(sext(vs[0], aw) < sext(vs[1], aw))
	case "bvsle":
		r = b2u(sext(vs[0], aw) <= sext(vs[1], aw))
	case "bvsgt":
		r = b2u(sext(vs[0], aw) > sext(vs[1], aw))
	case "bvsge":
		r = b2u(sext(vs[0], aw) >= sext(vs[1], aw))
	default:
		var a, b int
		if n, _ := fmt.Sscanf(t.op, "(_ extract %d %d)", &a, &b); n == 2 {
			r = vs[0] >> uint(b)
		} else if n, _ := fmt.Sscanf(t.op, "(_ zero_extend %d)", &a); n == 1 {
			r = vs[0]
		} else if n, _ := fmt.Sscanf(t.op, "(_ sign_extend %d)", &a); n == 1 {
			r = uint64(sext(vs[0], aw))
		} else {
			return 0, false
		}
	}
	r &= maskb(w)
	memo[t] = r
	return r, true
}

func maskb(w int) uint64 {
	if w == 0 {
		return 1
	}
	return mask(w)
}

// ---------------------------------------------------------------- printing

func sortOf(w int) string {
	if w == 0 {
		return "Bool"
	}
	return fmt.Sprintf("(_ BitVec %d)", w)
}

// printer writes terms for one solver session; shared sub-terms above a size threshold
// are introduced once with define-fun so the text stays linear in the DAG size.
type printer struct {
	defined map[*term]string
	decls   map[string]bool
	out     *strings.Builder
}

func newPrinter() *printer {
	return &printer{defined: map[*term]string{}, decls: map[string]bool{}, out: &strings.Builder{}}
}

// prepare emits the declarations/definitions needed by t into p.out and returns the
// text that denotes t.
func (p *printer) prepare(t *term) string {
	switch t.op {
	case "const":
		if t.w == 0 {
			if t.val != 0 {
				return "true"
			}
			return "false"
		}
		return fmt.Sprintf("(_ bv%d %d)", t.val&mask(t.w), t.w)
	case "var":
		if !p.decls[t.name] {
			p.decls[t.name] = true
			fmt.Fprintf(p.out, "(declare-const %s %s)\n", t.name, sortOf(t.w))
		}
		return t.name
	}
	if n, ok := p.defined[t]; ok {
		return n
	}
	parts := make([]string, len(t.args))
	for i, a := range t.args {
		parts[i] = p.prepare(a)
	}
	body := "(" + t.op + " " + strings.Join(parts, " ") + ")"
	if t.size >= 6 {
		name := fmt.Sprintf("t!%d", t.id)
		fmt.Fprintf(p.out, "(define-fun %s () %s %s)\n", name, sortOf(t.w), body)
		p.defined[t] = name
		return name
	}
	return body
}

func (t *term) String() string {
	p := newPrinter()
	s := p.prepare(t)
	return p.out.String() + s
}

// short renders a term inline (for evidence samples), bounded in length.
func (t *term) short() string {
	var sb strings.Builder
	var rec func(t *term)
	rec = func(t *term) {
		if sb.Len() > 400 {
			return
		}
		switch t.op {
		case "const":
			if t.w == 0 {
				fmt.Fprintf(&sb, "%v", t.val != 0)
			} else {
				fmt.Fprintf(&sb, "%d", t.val)
			}
		case "var":
			sb.WriteString(t.name)
		default:
			sb.WriteString("(" + t.op)
			for _, a := range t.args {
				sb.WriteString(" ")
				rec(a)
			}
			sb.WriteString(")")
		}
	}
	rec(t)
	if sb.Len() > 400 {
		return sb.String()[:400] + "…"
	}
	return sb.String()
}

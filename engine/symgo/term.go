package symgo

// SMT terms: a hash-consed DAG with a bit-slice normal form. Sorts are Bool (w == 0) and
// fixed-width bit-vectors. Shifts/masks by constants, zero extensions, extracts and
// bit-wise or/and/xor over disjoint fields are normalised into concatenations of slices
// ("pieces"), so that code which takes a word apart and re-assembles it (RoaringBitmap's
// high/low keys, binary.LittleEndian) yields syntactically equal terms and equalities
// split per field — most such comparisons then fold without a solver call.

import (
	"fmt"
	"math/bits"
	"strings"
	"sync"
	"sync/atomic"
)

type term struct {
	op     string // const, var, not, and, or, =, ite, bv*, extract, zext, sext, concat
	args   []*term
	w      int // 0 = Bool
	val    uint64
	name   string
	p1, p2 int // extract: hi, lo; zext/sext: added bits
	id     uint64
	size   int // number of nodes as a tree (saturating)

	vars     []*term
	varsDone bool
}

var termCounter uint64

type termKey struct {
	op      string
	w       int
	a, b, c *term
	val     uint64
	p1, p2  int
}

const termShards = 64

var termTab [termShards]struct {
	mu sync.Mutex
	m  map[termKey]*term
}

func init() { ResetTerms() }

// ResetTerms drops the intern table (call only when no exploration is running).
func ResetTerms() {
	for i := range termTab {
		termTab[i].mu.Lock()
		termTab[i].m = map[termKey]*term{}
		termTab[i].mu.Unlock()
	}
}

func intern(k termKey, mk func() *term) *term {
	h := uint64(len(k.op))*31 + uint64(k.w)*131 + k.val*2654435761 + uint64(k.p1)*7919 + uint64(k.p2)*104729
	if k.a != nil {
		h = h*1099511628211 + k.a.id
	}
	if k.b != nil {
		h = h*1099511628211 + k.b.id
	}
	if k.c != nil {
		h = h*1099511628211 + k.c.id
	}
	for i := 0; i < len(k.op); i++ {
		h = h*131 + uint64(k.op[i])
	}
	sh := &termTab[h%termShards]
	sh.mu.Lock()
	t, ok := sh.m[k]
	if !ok {
		t = mk()
		sh.m[k] = t
	}
	sh.mu.Unlock()
	return t
}

func newTermP(op string, w, p1, p2 int, args ...*term) *term {
	k := termKey{op: op, w: w, p1: p1, p2: p2}
	switch len(args) {
	case 3:
		k.c = args[2]
		fallthrough
	case 2:
		k.b = args[1]
		fallthrough
	case 1:
		k.a = args[0]
	}
	return intern(k, func() *term {
		sz := 1
		for _, a := range args {
			sz += a.size
			if sz > 1<<30 {
				sz = 1 << 30
			}
		}
		return &term{op: op, w: w, p1: p1, p2: p2, args: args, id: atomic.AddUint64(&termCounter, 1), size: sz}
	})
}

func newTerm(op string, w int, args ...*term) *term { return newTermP(op, w, 0, 0, args...) }

// varsOf returns the variables occurring in t (cached; terms are immutable).
func (t *term) varsOf() []*term {
	if t.varsDone {
		return t.vars
	}
	var out []*term
	switch t.op {
	case "const":
	case "var":
		out = []*term{t}
	default:
		seen := map[*term]bool{}
		for _, a := range t.args {
			for _, v := range a.varsOf() {
				if !seen[v] {
					seen[v] = true
					out = append(out, v)
				}
			}
		}
	}
	t.vars, t.varsDone = out, true
	return out
}

func mask(w int) uint64 {
	if w >= 64 {
		return ^uint64(0)
	}
	return (uint64(1) << uint(w)) - 1
}

var (
	termTrue  = &term{op: "const", w: 0, val: 1, size: 1, id: 1<<62 + 1}
	termFalse = &term{op: "const", w: 0, val: 0, size: 1, id: 1<<62 + 2}
)

func mkConst(v uint64, w int) *term {
	if w == 0 {
		return mkBool(v != 0)
	}
	v &= mask(w)
	return intern(termKey{op: "const", w: w, val: v}, func() *term {
		return &term{op: "const", w: w, val: v, size: 1, id: atomic.AddUint64(&termCounter, 1)}
	})
}

func mkBool(b bool) *term {
	if b {
		return termTrue
	}
	return termFalse
}

func mkVar(name string, w int) *term {
	return intern(termKey{op: "var:" + name, w: w}, func() *term {
		return &term{op: "var", w: w, name: name, id: atomic.AddUint64(&termCounter, 1), size: 1}
	})
}

func (t *term) isConst() bool { return t.op == "const" }
func (t *term) isTrue() bool  { return t.op == "const" && t.w == 0 && t.val != 0 }
func (t *term) isFalse() bool { return t.op == "const" && t.w == 0 && t.val == 0 }

// same reports syntactic identity (terms are hash-consed).
func same(a, b *term) bool {
	if a == b {
		return true
	}
	if a.op == "const" && b.op == "const" {
		return a.w == b.w && a.val == b.val
	}
	return false
}

func mkNot(t *term) *term {
	if t.op == "const" {
		return mkBool(t.val == 0)
	}
	if t.op == "not" {
		return t.args[0]
	}
	return newTerm("not", 0, t)
}

func mkAnd(a, b *term) *term {
	switch {
	case a.isFalse() || b.isFalse():
		return termFalse
	case a.isTrue():
		return b
	case b.isTrue():
		return a
	case same(a, b):
		return a
	case a == mkNot(b):
		return termFalse
	}
	if a.id > b.id {
		a, b = b, a
	}
	return newTerm("and", 0, a, b)
}

func mkOr(a, b *term) *term {
	switch {
	case a.isTrue() || b.isTrue():
		return termTrue
	case a.isFalse():
		return b
	case b.isFalse():
		return a
	case same(a, b):
		return a
	case a == mkNot(b):
		return termTrue
	}
	if a.id > b.id {
		a, b = b, a
	}
	return newTerm("or", 0, a, b)
}

func mkIte(c, a, b *term) *term {
	if c.isTrue() {
		return a
	}
	if c.isFalse() {
		return b
	}
	if same(a, b) {
		return a
	}
	if a.w == 0 {
		if a.isTrue() && b.isFalse() {
			return c
		}
		if a.isFalse() && b.isTrue() {
			return mkNot(c)
		}
	}
	return newTerm("ite", a.w, c, a, b)
}

func sext(v uint64, w int) int64 {
	if w >= 64 {
		return int64(v)
	}
	s := uint(64 - w)
	return int64(v<<s) >> s
}

// ---------------------------------------------------------------- bit-slice normal form

// piece list: most significant first. A term's pieces are: the parts of a concat,
// [zeros, x] for a zero extension, or the term itself.
func piecesOf(t *term) []*term {
	switch t.op {
	case "concat":
		var out []*term
		for _, a := range t.args {
			out = append(out, piecesOf(a)...)
		}
		return out
	case "zext":
		return append([]*term{mkConst(0, t.p1)}, piecesOf(t.args[0])...)
	}
	return []*term{t}
}

// fromPieces builds the normal form of a piece list.
func fromPieces(ps []*term) *term {
	// merge adjacent constants and adjacent contiguous extracts of the same base
	var out []*term
	for _, p := range ps {
		if p.w == 0 {
			panic("fromPieces: zero-width piece")
		}
		if n := len(out); n > 0 {
			q := out[n-1]
			if q.isConst() && p.isConst() && q.w+p.w <= 64 {
				out[n-1] = mkConst(q.val<<uint(p.w)|p.val, q.w+p.w)
				continue
			}
			qb, qh, ql := sliceOf(q)
			pb, ph, pl := sliceOf(p)
			if qb == pb && !qb.isConst() && ql == ph+1 {
				out[n-1] = mkExtractRaw(qh, pl, qb)
				continue
			}
		}
		out = append(out, p)
	}
	if len(out) == 1 {
		return out[0]
	}
	w := 0
	for _, p := range out {
		w += p.w
	}
	if out[0].isConst() && out[0].val == 0 {
		rest := fromPiecesNoMerge(out[1:])
		return newTermP("zext", w, out[0].w, 0, rest)
	}
	return fromPiecesNoMerge(out)
}

func fromPiecesNoMerge(ps []*term) *term {
	if len(ps) == 1 {
		return ps[0]
	}
	lo := fromPiecesNoMerge(ps[1:])
	return newTerm("concat", ps[0].w+lo.w, ps[0], lo)
}

// sliceOf views t as base[hi:lo].
func sliceOf(t *term) (*term, int, int) {
	if t.op == "extract" {
		return t.args[0], t.p1, t.p2
	}
	return t, t.w - 1, 0
}

func mkExtractRaw(hi, lo int, a *term) *term {
	if lo == 0 && hi == a.w-1 {
		return a
	}
	return newTermP("extract", hi-lo+1, hi, lo, a)
}

// splitAt cuts the piece list at the given bit positions (counted from the least
// significant bit of the whole word).
func splitAt(ps []*term, cuts map[int]bool) []*term {
	w := 0
	for _, p := range ps {
		w += p.w
	}
	var out []*term
	pos := w
	for _, p := range ps {
		top, bot := pos, pos-p.w
		hi := top
		for c := top - 1; c > bot; c-- {
			if cuts[c] {
				out = append(out, mkExtract(hi-bot-1, c-bot, p))
				hi = c
			}
		}
		out = append(out, mkExtract(hi-bot-1, 0, p))
		pos = bot
	}
	return out
}

func boundaries(ps []*term) []int {
	w := 0
	for _, p := range ps {
		w += p.w
	}
	var bs []int
	pos := w
	for _, p := range ps[:len(ps)-1] {
		pos -= p.w
		bs = append(bs, pos)
	}
	return bs
}

// align refines two piece lists of equal total width to common boundaries.
func align(a, b []*term) ([]*term, []*term) {
	cuts := map[int]bool{}
	for _, c := range boundaries(a) {
		cuts[c] = true
	}
	for _, c := range boundaries(b) {
		cuts[c] = true
	}
	return splitAt(a, cuts), splitAt(b, cuts)
}

func mkExtract(hi, lo int, a *term) *term {
	w := hi - lo + 1
	if lo == 0 && w == a.w {
		return a
	}
	if hi >= a.w || lo < 0 || hi < lo {
		panic(fmt.Sprintf("mkExtract [%d:%d] of width %d", hi, lo, a.w))
	}
	if a.isConst() {
		return mkConst(a.val>>uint(lo), w)
	}
	switch a.op {
	case "extract":
		return mkExtract(a.p2+hi, a.p2+lo, a.args[0])
	case "concat", "zext":
		ps := piecesOf(a)
		var out []*term
		pos := a.w
		for _, p := range ps {
			top, bot := pos-1, pos-p.w // bits [top..bot] of a
			pos = bot
			if top < lo || bot > hi {
				continue
			}
			h, l := hi, lo
			if top < h {
				h = top
			}
			if bot > l {
				l = bot
			}
			out = append(out, mkExtract(h-bot, l-bot, p))
		}
		return fromPieces(out)
	case "sext":
		in := a.args[0]
		if hi < in.w {
			return mkExtract(hi, lo, in)
		}
	case "bvand", "bvor", "bvxor":
		return mkBV(a.op, w, mkExtract(hi, lo, a.args[0]), mkExtract(hi, lo, a.args[1]))
	case "bvnot":
		return mkBVNot(mkExtract(hi, lo, a.args[0]))
	case "ite":
		if a.args[1].isConst() || a.args[2].isConst() {
			return mkIte(a.args[0], mkExtract(hi, lo, a.args[1]), mkExtract(hi, lo, a.args[2]))
		}
	case "bvadd", "bvsub", "bvmul":
		if lo == 0 {
			// low bits of +,-,* depend only on the low bits of the operands
			return mkBV(a.op, w, mkExtract(hi, 0, a.args[0]), mkExtract(hi, 0, a.args[1]))
		}
	}
	return mkExtractRaw(hi, lo, a)
}

func mkZext(to int, a *term) *term {
	if a.w == to {
		return a
	}
	if a.isConst() {
		return mkConst(a.val, to)
	}
	return fromPieces(append([]*term{mkConst(0, to-a.w)}, piecesOf(a)...))
}

func mkSext(to int, a *term) *term {
	if a.w == to {
		return a
	}
	if a.isConst() {
		return mkConst(uint64(sext(a.val, a.w)), to)
	}
	if a.op == "zext" {
		return mkZext(to, a) // the sign bit is a known zero
	}
	return newTermP("sext", to, to-a.w, 0, a)
}

func isZeroConst(t *term) bool { return t.isConst() && t.val == 0 }
func isOnesConst(t *term) bool { return t.isConst() && t.val == mask(t.w) }

// constRuns splits a constant into maximal runs of equal bits (most significant first).
func constRuns(c *term) []*term {
	var out []*term
	i := c.w - 1
	for i >= 0 {
		b := (c.val >> uint(i)) & 1
		j := i
		for j >= 0 && (c.val>>uint(j))&1 == b {
			j--
		}
		n := i - j
		if b == 1 {
			out = append(out, mkConst(mask(n), n))
		} else {
			out = append(out, mkConst(0, n))
		}
		i = j
	}
	return out
}

// bitwise tries to compute a op b field by field; ok is false if some field needs a real
// operator node (then the caller emits one node for the whole word).
func bitwise(op string, w int, a, b *term) (*term, bool) {
	pa, pb := piecesOf(a), piecesOf(b)
	if len(pa) == 1 && len(pb) == 1 && !a.isConst() && !b.isConst() {
		return nil, false
	}
	expand := func(ps []*term) []*term {
		var out []*term
		for _, p := range ps {
			if p.isConst() && !isZeroConst(p) && !isOnesConst(p) {
				if runs := constRuns(p); len(runs) <= 6 {
					out = append(out, runs...)
					continue
				}
			}
			out = append(out, p)
		}
		return out
	}
	pa, pb = align(expand(pa), expand(pb))
	out := make([]*term, len(pa))
	for i := range pa {
		x, y := pa[i], pb[i]
		if y.isConst() && !x.isConst() {
			x, y = y, x
		}
		switch {
		case x.isConst() && y.isConst():
			var v uint64
			switch op {
			case "bvor":
				v = x.val | y.val
			case "bvand":
				v = x.val & y.val
			default:
				v = x.val ^ y.val
			}
			out[i] = mkConst(v, x.w)
		case isZeroConst(x):
			if op == "bvand" {
				out[i] = x
			} else {
				out[i] = y
			}
		case isOnesConst(x):
			switch op {
			case "bvor":
				out[i] = x
			case "bvand":
				out[i] = y
			default:
				out[i] = mkBVNot(y)
			}
		case x == y:
			if op == "bvxor" {
				out[i] = mkConst(0, x.w)
			} else {
				out[i] = x
			}
		default:
			return nil, false
		}
	}
	return fromPieces(out), true
}

// disjointOr: if in every field at least one operand is a zero constant, a+b is a|b.
func disjointOr(a, b *term) (*term, bool) {
	pa, pb := piecesOf(a), piecesOf(b)
	if len(pa) == 1 && len(pb) == 1 {
		return nil, false
	}
	pa, pb = align(pa, pb)
	out := make([]*term, len(pa))
	for i := range pa {
		switch {
		case isZeroConst(pa[i]):
			out[i] = pb[i]
		case isZeroConst(pb[i]):
			out[i] = pa[i]
		default:
			return nil, false
		}
	}
	return fromPieces(out), true
}

// mkBV builds a bit-vector operation with constant folding and slice normalisation.
func mkBV(op string, w int, a, b *term) *term {
	if a.w != w || b.w != w {
		panic(fmt.Sprintf("mkBV %s: operand widths %d,%d for result %d", op, a.w, b.w, w))
	}
	if a.isConst() && b.isConst() {
		x, y := a.val, b.val
		switch op {
		case "bvadd":
			return mkConst(x+y, w)
		case "bvsub":
			return mkConst(x-y, w)
		case "bvmul":
			return mkConst(x*y, w)
		case "bvand":
			return mkConst(x&y, w)
		case "bvor":
			return mkConst(x|y, w)
		case "bvxor":
			return mkConst(x^y, w)
		case "bvshl":
			if y >= uint64(w) {
				return mkConst(0, w)
			}
			return mkConst(x<<y, w)
		case "bvlshr":
			if y >= uint64(w) {
				return mkConst(0, w)
			}
			return mkConst(x>>y, w)
		case "bvashr":
			if y >= uint64(w) {
				y = uint64(w - 1)
			}
			return mkConst(uint64(sext(x, w)>>y), w)
		case "bvudiv":
			if y != 0 {
				return mkConst(x/y, w)
			}
		case "bvurem":
			if y != 0 {
				return mkConst(x%y, w)
			}
		case "bvsdiv":
			if y != 0 && !(sext(x, w) == -1<<uint(w-1) && sext(y, w) == -1) {
				return mkConst(uint64(sext(x, w)/sext(y, w)), w)
			}
		case "bvsrem":
			if y != 0 && !(sext(x, w) == -1<<uint(w-1) && sext(y, w) == -1) {
				return mkConst(uint64(sext(x, w)%sext(y, w)), w)
			}
		}
	}
	switch op {
	case "bvshl":
		if b.isConst() {
			if b.val >= uint64(w) {
				return mkConst(0, w)
			}
			c := int(b.val)
			if c == 0 {
				return a
			}
			return fromPieces(append(piecesOf(mkExtract(w-1-c, 0, a)), mkConst(0, c)))
		}
	case "bvlshr":
		if b.isConst() {
			if b.val >= uint64(w) {
				return mkConst(0, w)
			}
			c := int(b.val)
			if c == 0 {
				return a
			}
			return fromPieces(append([]*term{mkConst(0, c)}, piecesOf(mkExtract(w-1, c, a))...))
		}
	case "bvashr":
		if b.isConst() && b.val == 0 {
			return a
		}
		if b.isConst() && a.op == "zext" {
			return mkBV("bvlshr", w, a, b)
		}
	case "bvor", "bvand", "bvxor":
		if same(a, b) {
			if op == "bvxor" {
				return mkConst(0, w)
			}
			return a
		}
		if r, ok := bitwise(op, w, a, b); ok {
			return r
		}
		if a.id > b.id {
			a, b = b, a
		}
	case "bvadd":
		if isZeroConst(a) {
			return b
		}
		if isZeroConst(b) {
			return a
		}
		if r, ok := disjointOr(a, b); ok {
			return r
		}
		if a.id > b.id {
			a, b = b, a
		}
	case "bvsub":
		if isZeroConst(b) {
			return a
		}
		if same(a, b) {
			return mkConst(0, w)
		}
	case "bvmul":
		if a.isConst() && a.val == 1 {
			return b
		}
		if b.isConst() && b.val == 1 {
			return a
		}
		if isZeroConst(a) || isZeroConst(b) {
			return mkConst(0, w)
		}
		if b.isConst() && b.val&(b.val-1) == 0 {
			return mkBV("bvshl", w, a, mkConst(uint64(bits.TrailingZeros64(b.val)), w))
		}
		if a.isConst() && a.val&(a.val-1) == 0 {
			return mkBV("bvshl", w, b, mkConst(uint64(bits.TrailingZeros64(a.val)), w))
		}
		if a.id > b.id {
			a, b = b, a
		}
	case "bvudiv":
		if b.isConst() && b.val != 0 && b.val&(b.val-1) == 0 {
			return mkBV("bvlshr", w, a, mkConst(uint64(bits.TrailingZeros64(b.val)), w))
		}
	case "bvurem":
		if b.isConst() && b.val != 0 && b.val&(b.val-1) == 0 {
			return mkBV("bvand", w, a, mkConst(b.val-1, w))
		}
	}
	return newTerm(op, w, a, b)
}

func mkEq(a, b *term) *term {
	if a.w != b.w {
		panic(fmt.Sprintf("mkEq: width mismatch %d vs %d", a.w, b.w))
	}
	if a.isConst() && b.isConst() {
		return mkBool(a.val == b.val)
	}
	if same(a, b) {
		return termTrue
	}
	if a.w == 0 {
		if a.isTrue() {
			return b
		}
		if b.isTrue() {
			return a
		}
		if a.isFalse() {
			return mkNot(b)
		}
		if b.isFalse() {
			return mkNot(a)
		}
		if a == mkNot(b) {
			return termFalse
		}
	} else {
		pa, pb := piecesOf(a), piecesOf(b)
		if len(pa) > 1 || len(pb) > 1 {
			// equality of concatenations splits per field
			pa, pb = align(pa, pb)
			r := termTrue
			for i := range pa {
				r = mkAnd(r, mkEq(pa[i], pb[i]))
				if r.isFalse() {
					return termFalse
				}
			}
			return r
		}
		if b.isConst() && a.op == "ite" {
			a, b = b, a
		}
		if a.isConst() && b.op == "ite" && b.args[1].isConst() && b.args[2].isConst() {
			t, e := b.args[1].val == a.val, b.args[2].val == a.val
			switch {
			case t && e:
				return termTrue
			case t:
				return b.args[0]
			case e:
				return mkNot(b.args[0])
			default:
				return termFalse
			}
		}
	}
	if a.id > b.id {
		a, b = b, a
	}
	return newTerm("=", 0, a, b)
}

func mkCmp(op string, a, b *term) *term {
	if a.w != b.w {
		panic(fmt.Sprintf("mkCmp %s: width mismatch %d vs %d", op, a.w, b.w))
	}
	if a.isConst() && b.isConst() {
		x, y := a.val, b.val
		sx, sy := sext(x, a.w), sext(y, a.w)
		switch op {
		case "bvult":
			return mkBool(x < y)
		case "bvule":
			return mkBool(x <= y)
		case "bvugt":
			return mkBool(x > y)
		case "bvuge":
			return mkBool(x >= y)
		case "bvslt":
			return mkBool(sx < sy)
		case "bvsle":
			return mkBool(sx <= sy)
		case "bvsgt":
			return mkBool(sx > sy)
		case "bvsge":
			return mkBool(sx >= sy)
		}
	}
	if same(a, b) {
		switch op {
		case "bvult", "bvugt", "bvslt", "bvsgt":
			return termFalse
		default:
			return termTrue
		}
	}
	// normalise to bvult / bvslt and their negations
	switch op {
	case "bvugt":
		return mkCmp("bvult", b, a)
	case "bvuge":
		return mkNot(mkCmp("bvult", a, b))
	case "bvule":
		return mkNot(mkCmp("bvult", b, a))
	case "bvsgt":
		return mkCmp("bvslt", b, a)
	case "bvsge":
		return mkNot(mkCmp("bvslt", a, b))
	case "bvsle":
		return mkNot(mkCmp("bvslt", b, a))
	}
	pa, pb := piecesOf(a), piecesOf(b)
	if len(pa) > 1 || len(pb) > 1 {
		pa, pb = align(pa, pb)
		// signed comparison of values whose top field is a shared zero constant is unsigned
		if op == "bvslt" && isZeroConst(pa[0]) && isZeroConst(pb[0]) {
			op = "bvult"
		}
		if op == "bvult" {
			// equal leading fields cancel
			i := 0
			for i < len(pa)-1 && pa[i] == pb[i] {
				i++
			}
			if i > 0 {
				return mkCmp("bvult", fromPieces(pa[i:]), fromPieces(pb[i:]))
			}
			if isZeroConst(pa[0]) && pb[0].isConst() && pb[0].val != 0 {
				return termTrue
			}
			if isZeroConst(pb[0]) && pa[0].isConst() && pa[0].val != 0 {
				return termFalse
			}
		}
	}
	if op == "bvult" {
		if isZeroConst(b) {
			return termFalse
		}
		if b.isConst() && b.val == 1 {
			return mkEq(a, mkConst(0, a.w))
		}
		if isOnesConst(a) {
			return termFalse
		}
	}
	return newTerm(op, 0, a, b)
}

func mkBVNot(a *term) *term {
	if a.isConst() {
		return mkConst(^a.val, a.w)
	}
	if a.op == "bvnot" {
		return a.args[0]
	}
	return newTerm("bvnot", a.w, a)
}

func mkBVNeg(a *term) *term {
	if a.isConst() {
		return mkConst(-a.val, a.w)
	}
	return newTerm("bvneg", a.w, a)
}

// mkPopcount: sum of bits, as an ordinary term (used by math/bits intrinsics).
func mkPopcount(a *term) *term {
	if a.isConst() {
		return mkConst(uint64(bits.OnesCount64(a.val)), a.w)
	}
	res := mkConst(0, a.w)
	for i := 0; i < a.w; i++ {
		res = mkBV("bvadd", a.w, res, mkZext(a.w, mkExtract(i, i, a)))
	}
	return res
}

// ---------------------------------------------------------------- evaluation under a model

func (t *term) eval(m map[string]uint64, memo map[*term]uint64) (uint64, bool) {
	switch t.op {
	case "const":
		return t.val, true
	case "var":
		v, ok := m[t.name]
		return v & maskb(t.w), ok
	}
	if v, ok := memo[t]; ok {
		return v, true
	}
	vs := make([]uint64, len(t.args))
	for i, a := range t.args {
		v, ok := a.eval(m, memo)
		if !ok {
			return 0, false
		}
		vs[i] = v
	}
	var r uint64
	w := t.w
	aw := 0
	if len(t.args) > 0 {
		aw = t.args[0].w
	}
	b2u := func(b bool) uint64 {
		if b {
			return 1
		}
		return 0
	}
	switch t.op {
	case "not":
		r = b2u(vs[0] == 0)
	case "and":
		r = b2u(vs[0] != 0 && vs[1] != 0)
	case "or":
		r = b2u(vs[0] != 0 || vs[1] != 0)
	case "=":
		r = b2u(vs[0] == vs[1])
	case "ite":
		if vs[0] != 0 {
			r = vs[1]
		} else {
			r = vs[2]
		}
	case "bvadd":
		r = vs[0] + vs[1]
	case "bvsub":
		r = vs[0] - vs[1]
	case "bvmul":
		r = vs[0] * vs[1]
	case "bvand":
		r = vs[0] & vs[1]
	case "bvor":
		r = vs[0] | vs[1]
	case "bvxor":
		r = vs[0] ^ vs[1]
	case "bvnot":
		r = ^vs[0]
	case "bvneg":
		r = -vs[0]
	case "bvshl":
		if vs[1] < uint64(w) {
			r = vs[0] << vs[1]
		}
	case "bvlshr":
		if vs[1] < uint64(w) {
			r = vs[0] >> vs[1]
		}
	case "bvashr":
		y := vs[1]
		if y >= uint64(w) {
			y = uint64(w - 1)
		}
		r = uint64(sext(vs[0], w) >> y)
	case "bvudiv":
		if vs[1] == 0 {
			r = mask(w)
		} else {
			r = vs[0] / vs[1]
		}
	case "bvurem":
		if vs[1] == 0 {
			r = vs[0]
		} else {
			r = vs[0] % vs[1]
		}
	case "bvsdiv":
		x, y := sext(vs[0], w), sext(vs[1], w)
		switch {
		case y == 0:
			if x >= 0 {
				r = mask(w)
			} else {
				r = 1
			}
		case y == -1:
			r = uint64(-x)
		default:
			r = uint64(x / y)
		}
	case "bvsrem":
		x, y := sext(vs[0], w), sext(vs[1], w)
		switch {
		case y == 0:
			r = uint64(x)
		case y == -1:
			r = 0
		default:
			r = uint64(x % y)
		}
	case "bvult":
		r = b2u(vs[0] < vs[1])
	case "bvslt":
		r = b2u(sext(vs[0], aw) < sext(vs[1], aw))
	case "extract":
		r = vs[0] >> uint(t.p2)
	case "zext":
		r = vs[0]
	case "sext":
		r = uint64(sext(vs[0], aw))
	case "concat":
		r = vs[0]<<uint(t.args[1].w) | vs[1]
	default:
		return 0, false
	}
	r &= maskb(w)
	memo[t] = r
	return r, true
}

func maskb(w int) uint64 {
	if w == 0 {
		return 1
	}
	return mask(w)
}

// ---------------------------------------------------------------- printing

func sortOf(w int) string {
	if w == 0 {
		return "Bool"
	}
	return fmt.Sprintf("(_ BitVec %d)", w)
}

func (t *term) smtOp() string {
	switch t.op {
	case "extract":
		return fmt.Sprintf("(_ extract %d %d)", t.p1, t.p2)
	case "zext":
		return fmt.Sprintf("(_ zero_extend %d)", t.p1)
	case "sext":
		return fmt.Sprintf("(_ sign_extend %d)", t.p1)
	}
	return t.op
}

// printer writes terms for one solver session; shared sub-terms above a size threshold
// are introduced once with define-fun so the text stays linear in the DAG size.
type printer struct {
	defined map[*term]string
	decls   map[string]bool
	out     *strings.Builder
}

func newPrinter() *printer {
	return &printer{defined: map[*term]string{}, decls: map[string]bool{}, out: &strings.Builder{}}
}

// prepare emits the declarations/definitions needed by t into p.out and returns the
// text that denotes t.
func (p *printer) prepare(t *term) string {
	switch t.op {
	case "const":
		if t.w == 0 {
			if t.val != 0 {
				return "true"
			}
			return "false"
		}
		return fmt.Sprintf("(_ bv%d %d)", t.val&mask(t.w), t.w)
	case "var":
		if !p.decls[t.name] {
			p.decls[t.name] = true
			fmt.Fprintf(p.out, "(declare-const %s %s)\n", t.name, sortOf(t.w))
		}
		return t.name
	}
	if n, ok := p.defined[t]; ok {
		return n
	}
	parts := make([]string, len(t.args))
	for i, a := range t.args {
		parts[i] = p.prepare(a)
	}
	body := "(" + t.smtOp() + " " + strings.Join(parts, " ") + ")"
	if t.size >= 6 {
		name := fmt.Sprintf("t!%d", t.id)
		fmt.Fprintf(p.out, "(define-fun %s () %s %s)\n", name, sortOf(t.w), body)
		p.defined[t] = name
		return name
	}
	return body
}

func (t *term) String() string {
	p := newPrinter()
	s := p.prepare(t)
	return p.out.String() + s
}

// short renders a term inline (for evidence samples), bounded in length.
func (t *term) short() string {
	var sb strings.Builder
	var rec func(t *term)
	rec = func(t *term) {
		if sb.Len() > 400 {
			return
		}
		switch t.op {
		case "const":
			if t.w == 0 {
				fmt.Fprintf(&sb, "%v", t.val != 0)
			} else {
				fmt.Fprintf(&sb, "%d", t.val)
			}
		case "var":
			sb.WriteString(t.name)
		default:
			sb.WriteString("(" + t.smtOp())
			for _, a := range t.args {
				sb.WriteString(" ")
				rec(a)
			}
			sb.WriteString(")")
		}
	}
	rec(t)
	if sb.Len() > 400 {
		return sb.String()[:400] + "…"
	}
	return sb.String()
}

package symgo

// Intrinsics: engine-native models of functions that cannot be interpreted (assembly,
// unsafe, runtime support) and the verifrt harness API.

import (
	"fmt"
	"go/types"
	"math"
	"strconv"
	"strings"

	"golang.org/x/tools/go/ssa"
)

const RTPath = "github.com/specterops/dawgs/internal/verifrt"

func noop(fr *frame, args []value) value { return nil }

func (in *interpreter) sitePos(fr *frame) string {
	// position of the call in the caller (the harness)
	f := fr.caller
	if f == nil {
		return "?"
	}
	if in.curInstr != nil && in.curInstr.Pos().IsValid() {
		p := in.prog.Fset.Position(in.curInstr.Pos())
		return fmt.Sprintf("%s:%d", shortFile(p.Filename), p.Line)
	}
	return f.fn.String()
}

func shortFile(f string) string {
	if i := strings.LastIndex(f, "/"); i >= 0 {
		return f[i+1:]
	}
	return f
}

func goString(v value) string {
	switch s := v.(type) {
	case string:
		return s
	case symstr:
		b := make([]byte, len(s))
		for i, c := range s {
			if cc, ok := c.(uint8); ok {
				b[i] = cc
			} else {
				b[i] = '?'
			}
		}
		return string(b)
	}
	return fmt.Sprint(v)
}

func lastField(p value) *value {
	s := (*(p.(*value))).(structure)
	return &s[len(s)-1]
}

func cell(p value) *value { return p.(*value) }

func errValue(in *interpreter, msg value) value {
	fn := in.pg.lookupFunc("errors", "New")
	return call(in, nil, 0, fn, []value{msg})
}

func init() {
	rt := RTPath + "."
	nondet := func(name string, k types.BasicKind) {
		externals[rt+name] = func(fr *frame, args []value) value {
			return fr.i.path.fresh(goString(args[0]), k)
		}
	}
	nondet("NondetInt", types.Int)
	nondet("NondetInt64", types.Int64)
	nondet("NondetInt32", types.Int32)
	nondet("NondetUint64", types.Uint64)
	nondet("NondetUint32", types.Uint32)
	nondet("NondetUint16", types.Uint16)
	nondet("NondetByte", types.Uint8)
	nondet("NondetBool", types.Bool)
	externals[rt+"NondetBytes"] = func(fr *frame, args []value) value {
		n := int(asInt64(args[1]))
		out := make([]value, n)
		for i := range out {
			out[i] = fr.i.path.fresh(fmt.Sprintf("%s[%d]", goString(args[0]), i), types.Uint8)
		}
		return out
	}
	externals[rt+"NondetString"] = func(fr *frame, args []value) value {
		n := int(asInt64(args[1]))
		out := make(symstr, n)
		for i := range out {
			out[i] = fr.i.path.fresh(fmt.Sprintf("%s[%d]", goString(args[0]), i), types.Uint8)
		}
		return normStr(out)
	}
	externals[rt+"NondetChoice"] = func(fr *frame, args []value) value {
		n := int(asInt64(args[1]))
		if n <= 0 {
			panic(pruned{})
		}
		p := fr.i.path
		s := p.fresh(goString(args[0]), types.Int)
		p.assume(mkSymVal(types.Bool, mkCmp("bvult", s.e, mkConst(uint64(n), 64))))
		// bisection: log2(n) decisions per path
		lo, hi := 0, n // value in [lo,hi)
		for hi-lo > 1 {
			mid := (lo + hi) / 2
			if p.decide(mkCmp("bvult", s.e, mkConst(uint64(mid), 64))) {
				hi = mid
			} else {
				lo = mid
			}
		}
		p.addPC(mkEq(s.e, mkConst(uint64(lo), 64)))
		return lo
	}
	externals[rt+"Assume"] = func(fr *frame, args []value) value {
		fr.i.path.assume(args[0])
		return nil
	}
	externals[rt+"Assert"] = func(fr *frame, args []value) value {
		fr.i.path.assert(args[0], goString(args[1]), fr.i.callerPos(fr))
		return nil
	}
	externals[rt+"Fail"] = func(fr *frame, args []value) value {
		fr.i.path.assert(false, goString(args[0]), fr.i.callerPos(fr))
		return nil
	}
	externals[rt+"And"] = func(fr *frame, args []value) value { return boolAnd(args[0], args[1]) }
	externals[rt+"Or"] = func(fr *frame, args []value) value { return boolOr(args[0], args[1]) }
	externals[rt+"Not"] = func(fr *frame, args []value) value { return boolNot(args[0]) }
	externals[rt+"Implies"] = func(fr *frame, args []value) value { return boolOr(boolNot(args[0]), args[1]) }
	ite := func(k types.BasicKind) externalFn {
		return func(fr *frame, args []value) value {
			if c, ok := args[0].(bool); ok {
				if c {
					return args[1]
				}
				return args[2]
			}
			return mkSymVal(k, mkIte(args[0].(sym).e, toTerm(args[1], k), toTerm(args[2], k)))
		}
	}
	externals[rt+"Ite"] = ite(types.Int)
	externals[rt+"IteU64"] = ite(types.Uint64)
	externals[rt+"IteBool"] = ite(types.Bool)
	externals[rt+"B2I"] = func(fr *frame, args []value) value {
		if c, ok := args[0].(bool); ok {
			if c {
				return 1
			}
			return 0
		}
		return mkSymVal(types.Int, mkIte(args[0].(sym).e, mkConst(1, 64), mkConst(0, 64)))
	}
	externals[rt+"Observe"] = func(fr *frame, args []value) value {
		p := fr.i.path
		if len(p.observed) < 64 {
			p.observed = append(p.observed, goString(normStr(fr.i.sprint(fr, args[0].([]value), false, fmtMode{lenient: true}))))
		}
		return nil
	}
	externals[rt+"Symbolic"] = func(fr *frame, args []value) value { return true }
	externals[rt+"Concrete"] = func(fr *frame, args []value) value {
		// Concrete(x int) int: fork over all feasible values
		return int(fr.i.concreteInt(args[0]))
	}
	externals[rt+"MapOrderNondet"] = func(fr *frame, args []value) value {
		fr.i.mapOrderNondet = args[0].(bool)
		return nil
	}
	externals[rt+"MapRangeCount"] = func(fr *frame, args []value) value { return fr.i.mapRanges }
	externals[rt+"ReverseMapRange"] = func(fr *frame, args []value) value {
		// ReverseMapRange(k): the k-th (1-based, counted from now) range over a map with at
		// least two entries iterates in reverse order; 0 switches it off
		k := int(asInt64(args[0]))
		if k <= 0 {
			fr.i.reverseRange = 0
		} else {
			fr.i.reverseRange = fr.i.mapRanges + k
		}
		return nil
	}
	externals[rt+"Guard"] = func(fr *frame, args []value) value {
		// Guard(ptr any, lock any, mode int, name string)
		in := fr.i
		pc := args[0].(iface).v.(*value)
		lk := args[1].(iface).v.(*value)
		g := guard{cell: pc, lock: lk, mode: int(asInt64(args[2])), name: goString(args[3])}
		in.guards = append(in.guards, g)
		// one level of indirection: a pointer to a struct (e.g. *list.List) guards the struct's cells
		if pp, ok := (*pc).(*value); ok && pp != nil {
			if st, ok := (*pp).(structure); ok {
				for i := range st {
					in.guards = append(in.guards, guard{cell: &st[i], lock: lk, mode: g.mode, name: g.name + ".*"})
				}
			}
		}
		return nil
	}
	externals[rt+"Held"] = func(fr *frame, args []value) value {
		// Held(lock any) int: 0 none, 1 read, 2 write
		ls := fr.i.lockOf(args[0].(iface).v.(*value))
		switch {
		case ls.writer:
			return 2
		case ls.readers > 0:
			return 1
		}
		return 0
	}
	externals[rt+"SetFaultBudget"] = func(fr *frame, args []value) value {
		fr.i.faultBudget = int(asInt64(args[0]))
		return nil
	}
	externals[rt+"MayFail"] = func(fr *frame, args []value) value {
		in := fr.i
		if in.faultBudget <= 0 {
			return false
		}
		b := in.path.fresh("fault:"+goString(args[0]), types.Bool)
		if in.path.decide(b.e) {
			in.faultBudget--
			return true
		}
		return false
	}
	externals[rt+"MayCrash"] = func(fr *frame, args []value) value {
		in := fr.i
		if !in.crashArmed || in.faultBudget <= 0 {
			return nil
		}
		b := in.path.fresh("crash:"+goString(args[0]), types.Bool)
		if in.path.decide(b.e) {
			in.faultBudget--
			panic(crashUnwind{})
		}
		return nil
	}
	externals[rt+"ForceAssign"] = func(fr *frame, args []value) value {
		dst, _ := args[0].(iface)
		p, _ := dst.v.(*value)
		if p == nil {
			panic(engineAbort{"unsupported: ForceAssign to a nil pointer"})
		}
		*p = args[1]
		return nil
	}
	externals[rt+"CrashNow"] = func(fr *frame, args []value) value {
		if fr.i.crashArmed {
			panic(crashUnwind{})
		}
		return nil
	}
	externals["reflect.DeepEqual"] = func(fr *frame, args []value) value {
		return deepEqual(fr.i, args[0], args[1], map[[2]*value]bool{})
	}
	externals[rt+"RunUntilCrash"] = func(fr *frame, args []value) (res value) {
		in := fr.i
		saved := in.crashArmed
		in.crashArmed = true
		depth := in.depth
		defer func() {
			in.crashArmed = saved
			if r := recover(); r != nil {
				if _, ok := r.(crashUnwind); ok {
					in.depth = depth
					in.locks = map[*value]*lockState{}
					res = true
					return
				}
				panic(r)
			}
		}()
		call(in, fr, 0, args[0], nil)
		return false
	}
	externals[rt+"DeepEqual"] = func(fr *frame, args []value) value {
		return deepEqual(fr.i, args[0], args[1], map[[2]*value]bool{})
	}
	externals[rt+"Native"] = func(fr *frame, args []value) value {
		in := fr.i
		name := goString(args[0])
		f := in.pg.Natives[name]
		if f == nil {
			panic(engineAbort{"unsupported: native call-out " + name + " not registered"})
		}
		var sargs []string
		for _, a := range args[1].([]value) {
			s, ok := a.(string)
			if !ok {
				panic(engineAbort{"unsupported: native call-out " + name + " with a symbolic argument"})
			}
			sargs = append(sargs, s)
		}
		return f(sargs)
	}
	externals[rt+"Lift"] = func(fr *frame, args []value) value {
		in := fr.i
		name := goString(args[0])
		f := in.pg.Lifted[name]
		if f == nil {
			panic(engineAbort{"unsupported: no lifted value named " + name})
		}
		return f(in)
	}

	// ---------------------------------------------------------------- sync
	externals["(*sync.Mutex).Lock"] = func(fr *frame, args []value) value {
		ls := fr.i.lockOf(cell(args[0]))
		if fr.i.sch != nil {
			fr.i.sch.lock(ls)
			return nil
		}
		if ls.writer {
			panic(targetHang{"self-deadlock: sync.Mutex locked twice by the same goroutine"})
		}
		ls.writer = true
		return nil
	}
	externals["(*sync.Mutex).TryLock"] = func(fr *frame, args []value) value {
		ls := fr.i.lockOf(cell(args[0]))
		if fr.i.sch != nil {
			fr.i.sch.yield(nil)
		}
		if ls.writer {
			return false
		}
		ls.writer = true
		return true
	}
	externals["(*sync.Mutex).Unlock"] = func(fr *frame, args []value) value {
		ls := fr.i.lockOf(cell(args[0]))
		if !ls.writer {
			panic(targetPanic{iface{fr.i.runtimeErrorString, "sync: unlock of unlocked mutex"}})
		}
		if fr.i.sch != nil {
			fr.i.sch.hbRelease(ls)
		}
		ls.writer = false
		if fr.i.sch != nil {
			fr.i.sch.yield(nil)
		}
		return nil
	}
	externals["(*sync.RWMutex).Lock"] = func(fr *frame, args []value) value {
		ls := fr.i.lockOf(cell(args[0]))
		if fr.i.sch != nil {
			fr.i.sch.lock(ls)
			return nil
		}
		if ls.writer || ls.readers > 0 {
			panic(targetHang{"self-deadlock: sync.RWMutex.Lock while already held by the same goroutine"})
		}
		ls.writer = true
		return nil
	}
	externals["(*sync.RWMutex).Unlock"] = func(fr *frame, args []value) value {
		ls := fr.i.lockOf(cell(args[0]))
		if !ls.writer {
			panic(targetPanic{iface{fr.i.runtimeErrorString, "sync: Unlock of unlocked RWMutex"}})
		}
		if fr.i.sch != nil {
			fr.i.sch.hbRelease(ls)
		}
		ls.writer = false
		if fr.i.sch != nil {
			fr.i.sch.yield(nil)
		}
		return nil
	}
	externals["(*sync.RWMutex).RLock"] = func(fr *frame, args []value) value {
		ls := fr.i.lockOf(cell(args[0]))
		if fr.i.sch != nil {
			fr.i.sch.rlock(ls)
			return nil
		}
		if ls.writer {
			panic(targetHang{"self-deadlock: sync.RWMutex.RLock while write-locked by the same goroutine"})
		}
		ls.readers++
		return nil
	}
	externals["(*sync.RWMutex).RUnlock"] = func(fr *frame, args []value) value {
		ls := fr.i.lockOf(cell(args[0]))
		if ls.readers == 0 {
			panic(targetPanic{iface{fr.i.runtimeErrorString, "sync: RUnlock of unlocked RWMutex"}})
		}
		if fr.i.sch != nil {
			fr.i.sch.hbRelease(readerSide{ls})
		}
		ls.readers--
		if fr.i.sch != nil {
			fr.i.sch.yield(nil)
		}
		return nil
	}
	externals["(*sync.Once).Do"] = func(fr *frame, args []value) value {
		in := fr.i
		k := cell(args[0])
		if in.sch != nil {
			s := in.sch
			s.yield(func() bool { return s.onces[k] != 1 })
			if !in.onceDone[k] {
				in.onceDone[k] = true
				s.onces[k] = 1
				call(in, fr, 0, args[1], nil)
				s.onces[k] = 2
				s.hbRelease(k)
			} else {
				s.hbAcquire(k)
			}
			return nil
		}
		if !in.onceDone[k] {
			in.onceDone[k] = true
			call(in, fr, 0, args[1], nil)
		}
		return nil
	}
	externals["(*sync.Pool).Get"] = func(fr *frame, args []value) value {
		st := (*cell(args[0])).(structure)
		newFn := st[len(st)-1]
		switch f := newFn.(type) {
		case *ssa.Function:
			if f == nil {
				return iface{}
			}
		case nil:
			return iface{}
		}
		return call(fr.i, fr, 0, newFn, nil)
	}
	externals["(*sync.Pool).Put"] = noop

	externals["(*sync/atomic.Int64).Add"] = func(fr *frame, args []value) value {
		f := lastField(args[0])
		*f = binopAdd(fr.i, *f, args[1])
		return *f
	}
	externals["(*sync/atomic.Int64).Load"] = func(fr *frame, args []value) value { return *lastField(args[0]) }
	externals["(*sync/atomic.Int64).Store"] = func(fr *frame, args []value) value { *lastField(args[0]) = args[1]; return nil }
	externals["(*sync/atomic.Int32).Add"] = externals["(*sync/atomic.Int64).Add"]
	externals["(*sync/atomic.Int32).Load"] = externals["(*sync/atomic.Int64).Load"]
	externals["(*sync/atomic.Int32).Store"] = externals["(*sync/atomic.Int64).Store"]
	externals["(*sync/atomic.Uint64).Add"] = externals["(*sync/atomic.Int64).Add"]
	externals["(*sync/atomic.Uint64).Load"] = externals["(*sync/atomic.Int64).Load"]
	externals["(*sync/atomic.Uint64).Store"] = externals["(*sync/atomic.Int64).Store"]
	externals["(*sync/atomic.Uint32).Add"] = externals["(*sync/atomic.Int64).Add"]
	externals["(*sync/atomic.Uint32).Load"] = externals["(*sync/atomic.Int64).Load"]
	externals["(*sync/atomic.Uint32).Store"] = externals["(*sync/atomic.Int64).Store"]
	externals["(*sync/atomic.Uint32).CompareAndSwap"] = func(fr *frame, args []value) value {
		f := lastField(args[0])
		if fr.i.truth(eqValue(fr.i, nil, *f, args[1])) {
			*f = args[2]
			return true
		}
		return false
	}
	externals["(*sync/atomic.Int32).CompareAndSwap"] = externals["(*sync/atomic.Uint32).CompareAndSwap"]
	externals["(*sync/atomic.Int64).CompareAndSwap"] = externals["(*sync/atomic.Uint32).CompareAndSwap"]
	externals["(*sync/atomic.Uint64).CompareAndSwap"] = externals["(*sync/atomic.Uint32).CompareAndSwap"]
	externals["(*sync/atomic.Bool).Load"] = func(fr *frame, args []value) value {
		v := *lastField(args[0])
		if s, ok := v.(sym); ok {
			return mkSymVal(types.Bool, mkNot(mkEq(s.e, mkConst(0, 32))))
		}
		return v.(uint32) != 0
	}
	externals["(*sync/atomic.Bool).Store"] = func(fr *frame, args []value) value {
		switch b := args[1].(type) {
		case bool:
			if b {
				*lastField(args[0]) = uint32(1)
			} else {
				*lastField(args[0]) = uint32(0)
			}
		case sym:
			*lastField(args[0]) = mkSymVal(types.Uint32, mkIte(b.e, mkConst(1, 32), mkConst(0, 32)))
		}
		return nil
	}
	externals["(*sync/atomic.Bool).Swap"] = func(fr *frame, args []value) value {
		old := externals["(*sync/atomic.Bool).Load"](fr, args[:1])
		externals["(*sync/atomic.Bool).Store"](fr, args)
		return old
	}
	externals["(*sync/atomic.Bool).CompareAndSwap"] = func(fr *frame, args []value) value {
		old := externals["(*sync/atomic.Bool).Load"](fr, args[:1])
		if fr.i.truth(eqValue(fr.i, nil, old, args[1])) {
			externals["(*sync/atomic.Bool).Store"](fr, []value{args[0], args[2]})
			return true
		}
		return false
	}
	for _, ty := range []string{"Int32", "Int64", "Uint32", "Uint64", "Uintptr", "Pointer"} {
		externals["sync/atomic.Load"+ty] = func(fr *frame, args []value) value { return *cell(args[0]) }
		externals["sync/atomic.Store"+ty] = func(fr *frame, args []value) value { *cell(args[0]) = args[1]; return nil }
		externals["sync/atomic.Swap"+ty] = func(fr *frame, args []value) value {
			old := *cell(args[0])
			*cell(args[0]) = args[1]
			return old
		}
		externals["sync/atomic.CompareAndSwap"+ty] = func(fr *frame, args []value) value {
			if fr.i.truth(eqValue(fr.i, nil, *cell(args[0]), args[1])) {
				*cell(args[0]) = args[2]
				return true
			}
			return false
		}
		externals["sync/atomic.Add"+ty] = func(fr *frame, args []value) value {
			*cell(args[0]) = binopAdd(fr.i, *cell(args[0]), args[1])
			return *cell(args[0])
		}
	}
	// atomic.Pointer[T] / atomic.Value: generic; matched by origin name in callSSA
	externals["(*sync/atomic.Value).Load"] = func(fr *frame, args []value) value {
		st := (*cell(args[0])).(structure)
		if v, ok := st[0].(iface); ok {
			return v
		}
		return iface{}
	}
	externals["(*sync/atomic.Value).Store"] = func(fr *frame, args []value) value {
		st := (*cell(args[0])).(structure)
		st[0] = args[1]
		return nil
	}

	// sync.Map as an ordinary engine map keyed by the receiver cell
	getSM := func(fr *frame, p value) *omap {
		in := fr.i
		k := p.(*value)
		if t, ok := in.syncMaps[k]; ok {
			return t
		}
		t := newOmap(types.NewInterfaceType(nil, nil))
		in.syncMaps[k] = t
		return t
	}
	externals["(*sync.Map).LoadOrStore"] = func(fr *frame, args []value) value {
		t := getSM(fr, args[0])
		if v, ok := t.lookup(fr.i, args[1]); ok {
			return tuple{v, true}
		}
		t.insert(fr.i, args[1], args[2])
		return tuple{args[2], false}
	}
	externals["(*sync.Map).Load"] = func(fr *frame, args []value) value {
		t := getSM(fr, args[0])
		if v, ok := t.lookup(fr.i, args[1]); ok {
			return tuple{v, true}
		}
		return tuple{iface{}, false}
	}
	externals["(*sync.Map).Store"] = func(fr *frame, args []value) value {
		getSM(fr, args[0]).insert(fr.i, args[1], args[2])
		return nil
	}
	externals["(*sync.Map).Delete"] = func(fr *frame, args []value) value {
		getSM(fr, args[0]).remove(fr.i, args[1])
		return nil
	}
	externals["(*sync.Map).Range"] = func(fr *frame, args []value) value {
		t := getSM(fr, args[0])
		it := newOmapIter(fr.i, t)
		for {
			tp := it.next()
			if !tp[0].(bool) {
				break
			}
			if !fr.i.truth(call(fr.i, fr, 0, args[1], []value{tp[1], tp[2]})) {
				break
			}
		}
		return nil
	}

	// ---------------------------------------------------------------- strings.Builder / unsafe-based helpers
	sbBuf := func(p value) *value {
		s := (*(p.(*value))).(structure)
		return &s[1]
	}
	externals["(*strings.Builder).Grow"] = noop
	externals["(*strings.Builder).Reset"] = func(fr *frame, args []value) value { *sbBuf(args[0]) = []value(nil); return nil }
	externals["(*strings.Builder).Len"] = func(fr *frame, args []value) value {
		b, _ := (*sbBuf(args[0])).([]value)
		return len(b)
	}
	externals["(*strings.Builder).Cap"] = externals["(*strings.Builder).Len"]
	externals["(*strings.Builder).WriteByte"] = func(fr *frame, args []value) value {
		b, _ := (*sbBuf(args[0])).([]value)
		*sbBuf(args[0]) = append(b, args[1])
		return iface{}
	}
	externals["(*strings.Builder).WriteString"] = func(fr *frame, args []value) value {
		b, _ := (*sbBuf(args[0])).([]value)
		s := toSymstr(args[1])
		b = append(b, s...)
		*sbBuf(args[0]) = b
		return tuple{len(s), iface{}}
	}
	externals["(*strings.Builder).Write"] = func(fr *frame, args []value) value {
		b, _ := (*sbBuf(args[0])).([]value)
		p := args[1].([]value)
		b = append(b, p...)
		*sbBuf(args[0]) = b
		return tuple{len(p), iface{}}
	}
	externals["(*strings.Builder).WriteRune"] = func(fr *frame, args []value) value {
		b, _ := (*sbBuf(args[0])).([]value)
		var s symstr
		if sr, ok := args[1].(sym); ok {
			s = toSymstr(fr.i.encodeRuneSym(sr))
		} else {
			s = toSymstr(string(args[1].(rune)))
		}
		b = append(b, s...)
		*sbBuf(args[0]) = b
		return tuple{len(s), iface{}}
	}
	externals["(*strings.Builder).String"] = func(fr *frame, args []value) value {
		b, _ := (*sbBuf(args[0])).([]value)
		return normStr(symstr(b))
	}
	// strings.Replacer: the byte-table implementation indexes 256-entry tables of slices
	// with each input byte (a 256-way fork per symbolic byte); model the documented
	// semantics instead: scan left to right, at each position the first old string (in
	// argument order) that matches is replaced, matches do not overlap.
	externals["(*strings.Replacer).Replace"] = func(fr *frame, args []value) value {
		rep := (*cell(args[0])).(structure)
		oldnew, _ := rep[len(rep)-1].([]value)
		s := toSymstr(args[1])
		var out symstr
		for i := 0; i < len(s); {
			matched := false
			for p := 0; p+1 < len(oldnew); p += 2 {
				old := toSymstr(oldnew[p])
				if len(old) == 0 {
					panic(engineAbort{"unsupported: strings.Replacer with an empty old string"})
				}
				if i+len(old) <= len(s) && fr.i.truth(strEq(s[i:i+len(old)], old)) {
					out = append(out, toSymstr(oldnew[p+1])...)
					i += len(old)
					matched = true
					break
				}
			}
			if !matched {
				out = append(out, s[i])
				i++
			}
		}
		return normStr(out)
	}
	externals["strings.Clone"] = func(fr *frame, args []value) value { return args[0] }
	externals["internal/stringslite.Clone"] = externals["strings.Clone"]
	externals["bytes.Clone"] = func(fr *frame, args []value) value {
		b := args[0].([]value)
		if b == nil {
			return []value(nil)
		}
		return append([]value{}, b...)
	}

	// ---------------------------------------------------------------- bytealg
	indexByte := func(fr *frame, s symstr, c value) value {
		for i := range s {
			if fr.i.truth(byteEq(s[i], c)) {
				return i
			}
		}
		return -1
	}
	externals["internal/bytealg.IndexByteString"] = func(fr *frame, args []value) value {
		return indexByte(fr, toSymstr(args[0]), args[1])
	}
	externals["internal/bytealg.IndexByte"] = func(fr *frame, args []value) value {
		return indexByte(fr, symstr(args[0].([]value)), args[1])
	}
	externals["internal/bytealg.LastIndexByteString"] = func(fr *frame, args []value) value {
		s := toSymstr(args[0])
		for i := len(s) - 1; i >= 0; i-- {
			if fr.i.truth(byteEq(s[i], args[1])) {
				return i
			}
		}
		return -1
	}
	externals["internal/bytealg.LastIndexByte"] = func(fr *frame, args []value) value {
		s := args[0].([]value)
		for i := len(s) - 1; i >= 0; i-- {
			if fr.i.truth(byteEq(s[i], args[1])) {
				return i
			}
		}
		return -1
	}
	count := func(fr *frame, s symstr, c value) value {
		n := 0
		for i := range s {
			if fr.i.truth(byteEq(s[i], c)) {
				n++
			}
		}
		return n
	}
	externals["internal/bytealg.CountString"] = func(fr *frame, args []value) value {
		return count(fr, toSymstr(args[0]), args[1])
	}
	externals["internal/bytealg.Count"] = func(fr *frame, args []value) value {
		return count(fr, symstr(args[0].([]value)), args[1])
	}
	index := func(fr *frame, s, sub symstr) value {
		for i := 0; i+len(sub) <= len(s); i++ {
			if fr.i.truth(strEq(s[i:i+len(sub)], sub)) {
				return i
			}
		}
		return -1
	}
	externals["internal/bytealg.IndexString"] = func(fr *frame, args []value) value {
		return index(fr, toSymstr(args[0]), toSymstr(args[1]))
	}
	externals["internal/bytealg.Index"] = func(fr *frame, args []value) value {
		return index(fr, symstr(args[0].([]value)), symstr(args[1].([]value)))
	}
	externals["strings.Index"] = externals["internal/bytealg.IndexString"]
	externals["internal/stringslite.Index"] = externals["internal/bytealg.IndexString"]
	externals["bytes.Index"] = externals["internal/bytealg.Index"]
	externals["strings.LastIndex"] = func(fr *frame, args []value) value {
		s, sub := toSymstr(args[0]), toSymstr(args[1])
		for i := len(s) - len(sub); i >= 0; i-- {
			if fr.i.truth(strEq(s[i:i+len(sub)], sub)) {
				return i
			}
		}
		return -1
	}
	externals["bytes.LastIndex"] = func(fr *frame, args []value) value {
		s, sub := symstr(args[0].([]value)), symstr(args[1].([]value))
		for i := len(s) - len(sub); i >= 0; i-- {
			if fr.i.truth(strEq(s[i:i+len(sub)], sub)) {
				return i
			}
		}
		return -1
	}
	externals["internal/bytealg.Equal"] = func(fr *frame, args []value) value {
		return strEq(symstr(args[0].([]value)), symstr(args[1].([]value)))
	}
	externals["bytes.Equal"] = externals["internal/bytealg.Equal"]
	compare := func(fr *frame, a, b symstr) value {
		if fr.i.truth(strEq(a, b)) {
			return 0
		}
		if fr.i.truth(strLess(a, b)) {
			return -1
		}
		return 1
	}
	externals["internal/bytealg.Compare"] = func(fr *frame, args []value) value {
		return compare(fr, symstr(args[0].([]value)), symstr(args[1].([]value)))
	}
	externals["internal/bytealg.CompareString"] = func(fr *frame, args []value) value {
		return compare(fr, toSymstr(args[0]), toSymstr(args[1]))
	}
	externals["bytes.Compare"] = externals["internal/bytealg.Compare"]
	externals["strings.Compare"] = externals["internal/bytealg.CompareString"]
	externals["cmp.Compare[string]"] = externals["internal/bytealg.CompareString"]
	externals["internal/bytealg.MakeNoZero"] = func(fr *frame, args []value) value {
		n := int(asInt64(args[0]))
		out := make([]value, n)
		for i := range out {
			out[i] = uint8(0)
		}
		return out
	}
	externals["internal/bytealg.HashStr"] = nil
	delete(externals, "internal/bytealg.HashStr")

	// ---------------------------------------------------------------- runtime / misc
	externals["runtime.KeepAlive"] = noop
	externals["runtime.SetFinalizer"] = noop
	externals["runtime.ReadMemStats"] = noop
	externals["runtime.NumGoroutine"] = func(fr *frame, args []value) value { return 1 }
	externals["runtime/debug.Stack"] = func(fr *frame, args []value) value { return []value(nil) }
	externals["runtime/debug.FreeOSMemory"] = noop
	externals["time.Sleep"] = noop
	for _, n := range []string{"Info", "Debug", "Warn", "Error"} {
		externals["log/slog."+n] = noop
		externals["log/slog."+n+"Context"] = noop
		externals["(*log/slog.Logger)."+n] = noop
		externals["(*log/slog.Logger)."+n+"Context"] = noop
	}
	externals["log/slog.Default"] = func(fr *frame, args []value) value { return (*value)(nil) }
	externals["log/slog.String"] = func(fr *frame, args []value) value { return slogAttr() }
	externals["log/slog.Int"] = externals["log/slog.String"]
	externals["log/slog.Int64"] = externals["log/slog.String"]
	externals["log/slog.Uint64"] = externals["log/slog.String"]
	externals["log/slog.Bool"] = externals["log/slog.String"]
	externals["log/slog.Duration"] = externals["log/slog.String"]
	externals["log/slog.Any"] = externals["log/slog.String"]
	externals["log/slog.Float64"] = externals["log/slog.String"]
	externals["log/slog.Time"] = externals["log/slog.String"]
	externals["log/slog.Group"] = externals["log/slog.String"]
	externals["log.Printf"] = noop
	externals["log.Println"] = noop
	// time: the clock is outside every claim; instants are the zero Time, durations zero
	externals["time.Now"] = func(fr *frame, args []value) value {
		return structure{uint64(0), int64(0), (*value)(nil)}
	}
	externals["time.Since"] = func(fr *frame, args []value) value { return int64(0) }
	externals["time.Until"] = func(fr *frame, args []value) value { return int64(0) }
	externals["internal/godebug.New"] = func(fr *frame, args []value) value { return (*value)(nil) }
	externals["(*internal/godebug.Setting).Value"] = func(fr *frame, args []value) value { return "" }
	externals["(*internal/godebug.Setting).IncNonDefault"] = noop
	externals["internal/race.Acquire"] = noop
	externals["internal/race.Release"] = noop
	externals["internal/race.ReleaseMerge"] = noop
	externals["internal/race.Disable"] = noop
	externals["internal/race.Enable"] = noop
	externals["internal/race.Read"] = noop
	externals["internal/race.Write"] = noop
	externals["internal/race.ReadRange"] = noop
	externals["internal/race.WriteRange"] = noop
	externals["regexp.MustCompile"] = func(fr *frame, args []value) value { return (*value)(nil) }
	externals["math.Float64bits"] = func(fr *frame, args []value) value { return math.Float64bits(args[0].(float64)) }
	externals["math.Floor"] = func(fr *frame, args []value) value { return math.Floor(args[0].(float64)) }
	externals["math.Ceil"] = func(fr *frame, args []value) value { return math.Ceil(args[0].(float64)) }
	externals["math.Trunc"] = func(fr *frame, args []value) value { return math.Trunc(args[0].(float64)) }
	externals["math.Modf"] = func(fr *frame, args []value) value {
		a, b := math.Modf(args[0].(float64))
		return tuple{a, b}
	}
	externals["math.IsInf"] = func(fr *frame, args []value) value { return math.IsInf(args[0].(float64), args[1].(int)) }
	externals["math.Pow"] = func(fr *frame, args []value) value { return math.Pow(args[0].(float64), args[1].(float64)) }
	externals["math.Log2"] = func(fr *frame, args []value) value { return math.Log2(args[0].(float64)) }
	externals["math.Round"] = func(fr *frame, args []value) value { return math.Round(args[0].(float64)) }
	externals["strconv.FormatFloat"] = func(fr *frame, args []value) value {
		return strconv.FormatFloat(args[0].(float64), args[1].(byte), args[2].(int), args[3].(int))
	}
	externals["strconv.ParseFloat"] = func(fr *frame, args []value) value {
		s, ok := args[0].(string)
		if !ok {
			panic(engineAbort{"unsupported: strconv.ParseFloat on symbolic text"})
		}
		f, err := strconv.ParseFloat(s, int(asInt64(args[1])))
		if err != nil {
			return tuple{f, errValue(fr.i, err.Error())}
		}
		return tuple{f, iface{}}
	}
	externals["math/bits.OnesCount64"] = func(fr *frame, args []value) value {
		if s, ok := args[0].(sym); ok {
			return mkSymVal(types.Int, mkPopcount(s.e))
		}
		return popcnt(args[0].(uint64))
	}
	externals["math/bits.OnesCount32"] = func(fr *frame, args []value) value {
		if s, ok := args[0].(sym); ok {
			return mkSymVal(types.Int, mkZext(64, mkPopcount(s.e)))
		}
		return popcnt(uint64(args[0].(uint32)))
	}
	externals["math/bits.OnesCount16"] = func(fr *frame, args []value) value {
		if s, ok := args[0].(sym); ok {
			return mkSymVal(types.Int, mkZext(64, mkPopcount(s.e)))
		}
		return popcnt(uint64(args[0].(uint16)))
	}
}

func popcnt(x uint64) int {
	n := 0
	for ; x != 0; x &= x - 1 {
		n++
	}
	return n
}

func binopAdd(in *interpreter, x, y value) value {
	if isSym(x) || isSym(y) {
		k := valueKind(x)
		if sy, ok := x.(sym); ok {
			k = sy.k
		}
		w, _ := kindInfo(k)
		return mkSymVal(k, mkBV("bvadd", w, toTerm(x, k), toTerm(y, k)))
	}
	switch a := x.(type) {
	case int32:
		return a + y.(int32)
	case int64:
		return a + y.(int64)
	case uint32:
		return a + y.(uint32)
	case uint64:
		return a + y.(uint64)
	case uintptr:
		return a + y.(uintptr)
	case int:
		return a + y.(int)
	}
	panic(fmt.Sprintf("unsupported atomic add on %T", x))
}

// callerPos: source position of the call instruction in the calling frame.
func (in *interpreter) callerPos(fr *frame) string {
	if fr.caller != nil && fr.caller.curCall != nil && fr.caller.curCall.Pos().IsValid() {
		p := in.prog.Fset.Position(fr.caller.curCall.Pos())
		return fmt.Sprintf("%s:%d", shortFile(p.Filename), p.Line)
	}
	if fr.caller != nil {
		return fr.caller.fn.String()
	}
	return "?"
}

// deepEqual: structural equality of two engine values as a bool-or-symbolic-bool.
func deepEqual(in *interpreter, a, b value, seen map[[2]*value]bool) value {
	switch x := a.(type) {
	case iface:
		y, ok := b.(iface)
		if !ok {
			return false
		}
		if x.t == nil || y.t == nil {
			return x.t == nil && y.t == nil
		}
		if !types.Identical(x.t, y.t) {
			return false
		}
		return deepEqual(in, x.v, y.v, seen)
	case *value:
		y, ok := b.(*value)
		if !ok {
			return false
		}
		if x == nil || y == nil {
			return x == y
		}
		if x == y {
			return true
		}
		k := [2]*value{x, y}
		if seen[k] {
			return true
		}
		seen[k] = true
		return deepEqual(in, *x, *y, seen)
	case structure:
		y, ok := b.(structure)
		if !ok || len(x) != len(y) {
			return false
		}
		var r value = true
		for i := range x {
			r = boolAnd(r, deepEqual(in, x[i], y[i], seen))
			if bb, ok := r.(bool); ok && !bb {
				return false
			}
		}
		return r
	case array:
		y, ok := b.(array)
		if !ok || len(x) != len(y) {
			return false
		}
		var r value = true
		for i := range x {
			r = boolAnd(r, deepEqual(in, x[i], y[i], seen))
			if bb, ok := r.(bool); ok && !bb {
				return false
			}
		}
		return r
	case []value:
		y, ok := b.([]value)
		if !ok || len(x) != len(y) || (x == nil) != (y == nil) {
			return false
		}
		var r value = true
		for i := range x {
			r = boolAnd(r, deepEqual(in, x[i], y[i], seen))
			if bb, ok := r.(bool); ok && !bb {
				return false
			}
		}
		return r
	case *omap:
		y, ok := b.(*omap)
		if !ok || (x == nil) != (y == nil) || x.len() != y.len() {
			return false
		}
		if x == nil {
			return true
		}
		var r value = true
		for _, e := range x.ents {
			if e.dead {
				continue
			}
			v2, ok := y.lookup(in, e.key)
			if !ok {
				return false
			}
			r = boolAnd(r, deepEqual(in, e.val, v2, seen))
			if bb, ok := r.(bool); ok && !bb {
				return false
			}
		}
		return r
	case *ssa.Function:
		y, ok := b.(*ssa.Function)
		return ok && x == y
	case *closure:
		y, ok := b.(*closure)
		return ok && x == y
	case nil:
		return b == nil
	}
	switch b.(type) {
	case iface, *value, structure, array, []value, *omap:
		return false
	}
	return eqValue(in, nil, a, b)
}

// slogAttr: a zero slog.Attr (Key string, Value{num uint64, any any}); logging is a no-op.
func slogAttr() value {
	return structure{"", structure{array{}, uint64(0), iface{}}}
}

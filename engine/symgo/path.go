package symgo

// Path state, decisions, assertions and the (parallel, stateless) exploration loop.

import (
	"fmt"
	"go/token"
	"go/types"
	"os"
	"os/exec"
	"runtime"
	"runtime/debug"
	"sort"
	"strings"
	"sync"
	"sync/atomic"
	"time"
)

// Decision is one entry of a path's decision log.
type Decision struct {
	Side  bool
	Val   uint64 // value picked by a concretisation (IsVal)
	IsVal bool
}

// control-flow panics of the engine (never visible to target recover()).
type pruned struct{}                  // path infeasible (Assume false / no feasible side)
type engineAbort struct{ why string } // unsupported construct or budget exhausted
type crashUnwind struct{}             // simulated process crash (MayCrash)
type pathDone struct{}                // harness asked to stop the path normally

func isEngineControl(p any) bool {
	switch p.(type) {
	case pruned, engineAbort, crashUnwind, pathDone, targetHang, threadKilled:
		return true
	}
	return false
}

// NondetRec describes one nondeterministic input created on a path.
type NondetRec struct {
	Name string `json:"name"`
	Kind string `json:"kind"` // go basic kind name
	Var  string `json:"-"`
	W    int    `json:"-"`
	Val  uint64 `json:"val"`
}

// Failure is a violated assertion or an escaping panic, with a model.
type Failure struct {
	Harness   string      `json:"harness"`
	Kind      string      `json:"kind"` // "assert", "panic", "hang"
	Msg       string      `json:"msg"`
	Site      string      `json:"site"`
	Inputs    []NondetRec `json:"inputs"`
	Decisions []Decision  `json:"decisions"`
	Count     int         `json:"count"`
	MapOrder  bool        `json:"map_order"` // path took map-iteration-order decisions
}

type pathState struct {
	prefix []Decision
	log    []Decision
	pc     []*term
	sent   int // pc[:sent] already asserted in the solver
	slv    *solver
	aux    *solver // non-incremental solver for validity queries
	vars   []*term
	inputs []NondetRec
	model  map[string]uint64 // a model of pc (nil if unknown)

	pending  [][]Decision
	failures []Failure

	obligations int
	discharged  int
	unknownBr   int
	unknownAs   int
	dataDec     int
	instrs      int64
	budget      int64
	assertSites map[string]int
	mapOrderDec bool
	lits        map[*term]bool
	cacheHits   int
	pendingAs   []pendingAssert
	notes       []string
	observed    []string
}

func (p *pathState) flush() {
	for ; p.sent < len(p.pc); p.sent++ {
		p.slv.assert(p.pc[p.sent])
	}
}

func (p *pathState) addPC(lit *term) {
	if p.lits[lit] {
		return
	}
	p.pc = append(p.pc, lit)
	p.noteLit(lit)
}

// noteLit records lit (and the conjuncts it implies) as true on this path.
func (p *pathState) noteLit(lit *term) {
	if p.lits[lit] {
		return
	}
	p.lits[lit] = true
	switch {
	case lit.op == "and":
		p.noteLit(lit.args[0])
		p.noteLit(lit.args[1])
	case lit.op == "not" && lit.args[0].op == "or":
		p.noteLit(mkNot(lit.args[0].args[0]))
		p.noteLit(mkNot(lit.args[0].args[1]))
	}
}

// evalModel evaluates c under the cached model, if there is one.
func (p *pathState) evalModel(c *term) (bool, bool) {
	if p.model == nil {
		return false, false
	}
	v, ok := c.eval(p.model, map[*term]uint64{})
	return v != 0, ok
}

func (p *pathState) checkWithModel(c *term) string {
	m, r := p.slv.model(c, p.vars)
	if r == "sat" {
		p.model = m
	}
	return r
}

// decide returns the side of condition c that this path follows, forking if both are feasible.
func (p *pathState) decide(c *term) bool {
	if c.op == "const" {
		return c.val != 0
	}
	return p.decideVal(c, 0, false)
}

func (p *pathState) decideVal(c *term, val uint64, isVal bool) bool {
	// literals already on the path condition decide without a log entry (replays see the
	// same path condition, so they skip the same calls)
	if !isVal {
		if p.lits[c] {
			return true
		}
		if p.lits[mkNot(c)] {
			return false
		}
	}
	var side bool
	if pos := len(p.log); pos < len(p.prefix) {
		side = p.prefix[pos].Side
		// the cached model may not satisfy the forced literal
		if mv, ok := p.evalModel(c); !ok || mv != side {
			p.model = nil
		}
	} else {
		p.dataDec++
		mv, mok := p.evalModel(c)
		var satT, satF bool
		var mT, mF map[string]uint64
		if mok && mv {
			satT = true
		} else {
			satT, mT = p.feasible(c)
		}
		if mok && !mv {
			satF = true
		} else {
			satF, mF = p.feasible(mkNot(c))
		}
		switch {
		case !satT && !satF:
			panic(pruned{})
		case mok && ((mv && satT) || (!mv && satF)):
			side = mv // keep the model
		case satT:
			side = true
			p.model = mT
		default:
			side = false
			p.model = mF
		}
		if satT && satF {
			alt := make([]Decision, len(p.log), len(p.log)+1)
			copy(alt, p.log)
			alt = append(alt, Decision{Side: !side, Val: val, IsVal: isVal})
			p.pending = append(p.pending, alt)
		}
	}
	p.log = append(p.log, Decision{Side: side, Val: val, IsVal: isVal})
	lit := c
	if !side {
		lit = mkNot(c)
	}
	p.addPC(lit)
	return side
}

// feasible asks whether pc ∧ q is satisfiable. Answers are cached per worker under the
// independence slice of q (the constraints transitively sharing variables with q): the
// rest of the path condition is satisfiable by construction and shares no variable, so the
// slice decides the query. unknown counts as feasible.
func (p *pathState) feasible(q *term) (bool, map[string]uint64) {
	if q.isConst() {
		return q.val != 0, nil
	}
	qc := p.slv.qc
	// 1. a known unsat core whose literals are all on this path
	qc.mu.RLock()
	cores := qc.cores[q]
	qc.mu.RUnlock()
	for _, core := range cores {
		all := true
		for _, l := range core {
			if !p.lits[l] {
				all = false
				break
			}
		}
		if all {
			p.cacheHits++
			atomic.AddInt64(&qc.CoreHits, 1)
			return false, nil
		}
	}
	// 2. a recent model that satisfies the independence slice of q and q itself
	slice := p.slice(q)
	qc.mu.RLock()
	models := append([]map[string]uint64{}, qc.models...)
	qc.mu.RUnlock()
	for _, m := range models {
		memo := map[*term]uint64{}
		if v, ok := q.eval(m, memo); !ok || v == 0 {
			continue
		}
		good := true
		for _, c := range slice {
			if v, ok := c.eval(m, memo); !ok || v == 0 {
				good = false
				break
			}
		}
		if good {
			p.cacheHits++
			atomic.AddInt64(&qc.ModelHits, 1)
			// combine with the current full model on the other variables, if there is one
			if p.model != nil {
				full := map[string]uint64{}
				for k, v := range p.model {
					full[k] = v
				}
				seen := map[*term]bool{}
				for _, c := range append(slice, q) {
					for _, v := range c.varsOf() {
						if !seen[v] {
							seen[v] = true
							full[v.name] = m[v.name]
						}
					}
				}
				return true, full
			}
			return true, nil
		}
	}
	// 3. the solver
	p.flush()
	m, r, core := p.slv.modelCore(q, p.vars)
	switch r {
	case "sat":
		qc.addModel(m)
		return true, m
	case "unsat":
		qc.addCore(q, core)
		return false, nil
	case "restart":
		p.sent = 0
		p.slv.reset()
		p.flush()
	}
	p.unknownBr++
	return true, nil
}

// slice: the constraints of the path condition that transitively share variables with q.
func (p *pathState) slice(q *term) []*term {
	vs := map[*term]bool{}
	for _, v := range q.varsOf() {
		vs[v] = true
	}
	in := make([]bool, len(p.pc))
	for changed := true; changed; {
		changed = false
		for i, c := range p.pc {
			if in[i] {
				continue
			}
			cv := c.varsOf()
			hit := false
			for _, v := range cv {
				if vs[v] {
					hit = true
					break
				}
			}
			if hit {
				in[i] = true
				changed = true
				for _, v := range cv {
					vs[v] = true
				}
			}
		}
	}
	var out []*term
	for i, c := range p.pc {
		if in[i] {
			out = append(out, c)
		}
	}
	return out
}

func (p *pathState) sliceKey(q *term) string {
	vs := map[*term]bool{}
	for _, v := range q.varsOf() {
		vs[v] = true
	}
	in := make([]bool, len(p.pc))
	for changed := true; changed; {
		changed = false
		for i, c := range p.pc {
			if in[i] {
				continue
			}
			cv := c.varsOf()
			hit := false
			for _, v := range cv {
				if vs[v] {
					hit = true
					break
				}
			}
			if hit {
				in[i] = true
				changed = true
				for _, v := range cv {
					vs[v] = true
				}
			}
		}
	}
	ids := make([]uint64, 0, len(p.pc))
	for i, c := range p.pc {
		if in[i] {
			ids = append(ids, c.id)
		}
	}
	sort.Slice(ids, func(i, j int) bool { return ids[i] < ids[j] })
	var sb strings.Builder
	for _, id := range ids {
		fmt.Fprintf(&sb, "%x,", id)
	}
	fmt.Fprintf(&sb, "|%x", q.id)
	return sb.String()
}

// concretize picks a concrete value for a symbolic integer, forking over all feasible values.
func (p *pathState) concretize(x sym) uint64 {
	w, _ := kindInfo(x.k)
	if w == 0 {
		if p.decide(x.e) {
			return 1
		}
		return 0
	}
	for n := 0; ; n++ {
		if n > 4096 {
			panic(engineAbort{"concretisation of a symbolic value with more than 4096 feasible values"})
		}
		var v0 uint64
		if pos := len(p.log); pos < len(p.prefix) && p.prefix[pos].IsVal {
			v0 = p.prefix[pos].Val
		} else {
			p.flush()
			if p.model == nil {
				r := p.checkWithModel(termTrue)
				if r != "sat" {
					panic(engineAbort{"concretisation: no model (" + r + ")"})
				}
			}
			v, ok := x.e.eval(p.model, map[*term]uint64{})
			if !ok {
				// variable not in model: any value
				v = 0
			}
			v0 = v
		}
		if p.decideVal(mkEq(x.e, mkConst(v0, w)), v0, true) {
			return v0
		}
	}
}

func (p *pathState) fresh(name string, k types.BasicKind) sym {
	w, _ := kindInfo(k)
	vn := fmt.Sprintf("v%d_%s", len(p.vars), sanitize(name))
	v := mkVar(vn, w)
	p.vars = append(p.vars, v)
	p.inputs = append(p.inputs, NondetRec{Name: name, Kind: types.Typ[k].Name(), Var: vn, W: w})
	return sym{k, v}
}

func sanitize(s string) string {
	var sb strings.Builder
	for _, c := range s {
		if (c >= 'a' && c <= 'z') || (c >= 'A' && c <= 'Z') || (c >= '0' && c <= '9') || c == '_' {
			sb.WriteRune(c)
		} else {
			sb.WriteByte('_')
		}
	}
	return sb.String()
}

// assume adds c to the path condition; the path ends if that is infeasible.
func (p *pathState) assume(v value) {
	p.flushAsserts()
	switch x := v.(type) {
	case bool:
		if !x {
			panic(pruned{})
		}
	case sym:
		if x.e.isTrue() {
			return
		}
		if x.e.isFalse() {
			panic(pruned{})
		}
		if len(p.log) < len(p.prefix) {
			// replaying: feasibility was established when the prefix was created
			if mv, ok := p.evalModel(x.e); !ok || !mv {
				p.model = nil
			}
			p.addPC(x.e)
			return
		}
		if mv, ok := p.evalModel(x.e); ok && mv {
			p.addPC(x.e)
			return
		}
		p.flush()
		r := p.checkWithModel(x.e)
		if r == "unsat" {
			panic(pruned{})
		}
		if r != "sat" {
			p.unknownBr++
			p.model = nil
		}
		p.addPC(x.e)
	default:
		panic(fmt.Sprintf("assume: %T", v))
	}
}

func (p *pathState) inputsWithModel(m map[string]uint64) []NondetRec {
	out := make([]NondetRec, len(p.inputs))
	copy(out, p.inputs)
	for i := range out {
		out[i].Val = m[out[i].Var] & maskb(out[i].W)
	}
	return out
}

func (p *pathState) anyModel() map[string]uint64 {
	if p.model != nil {
		return p.model
	}
	p.flush()
	m, r := p.slv.model(termTrue, p.vars)
	if r == "sat" {
		p.model = m
		return m
	}
	return map[string]uint64{}
}

func (p *pathState) fail(kind, msg, site string, m map[string]uint64) {
	p.failures = append(p.failures, Failure{Kind: kind, Msg: msg, Site: site,
		Inputs: p.inputsWithModel(m), Decisions: append([]Decision{}, p.log...), Count: 1, MapOrder: p.mapOrderDec})
}

// assert records the obligation that c holds on every input of this path. Symbolic
// obligations are collected and discharged in one solver query per batch (flushAsserts):
// the asserted condition is NOT added to the path condition, so inputs violating it keep
// flowing down some path and are caught when that path's batch is checked.
func (p *pathState) assert(v value, msg, site string) {
	p.obligations++
	if p.assertSites != nil {
		p.assertSites[site]++
	}
	switch x := v.(type) {
	case bool:
		if !x {
			p.flushAsserts()
			p.fail("assert", msg, site, p.anyModel())
			panic(pathDone{})
		}
		p.discharged++
	case sym:
		if x.e.isTrue() || p.lits[x.e] {
			p.discharged++
			return
		}
		p.pendingAs = append(p.pendingAs, pendingAssert{x.e, msg, site})
	default:
		panic(fmt.Sprintf("assert: %T", v))
	}
}

type pendingAssert struct {
	c         *term
	msg, site string
}

// flushAsserts discharges the collected obligations under the current path condition.
func (p *pathState) flushAsserts() {
	if len(p.pendingAs) == 0 {
		return
	}
	batch := p.pendingAs
	p.pendingAs = nil
	conj := termTrue
	for _, a := range batch {
		conj = mkAnd(conj, a.c)
	}
	q := mkNot(conj)
	if q.isFalse() {
		p.discharged += len(batch)
		return
	}
	qc := p.slv.qc
	qc.mu.RLock()
	cores := qc.cores[q]
	qc.mu.RUnlock()
	for _, core := range cores {
		all := true
		for _, l := range core {
			if !p.lits[l] {
				all = false
				break
			}
		}
		if all {
			p.cacheHits++
			atomic.AddInt64(&qc.CoreHits, 1)
			p.discharged += len(batch)
			return
		}
	}
	p.flush()
	r := "sat"
	useAux := p.aux != nil && qc.pickAux()
	tq := time.Now()
	defer func() { qc.noteBatch(useAux, time.Since(tq)) }()
	if useAux {
		sl := p.slice(q)
		var core []*term
		r, core = p.aux.checkStandalone(sl, q)
		if r == "unsat" {
			qc.addCore(q, core)
		} else if r == "restart" {
			r = "unknown"
		}
	} else if len(batch) > 1 {
		var core []*term
		r, core = p.slv.checkCore(q)
		if r == "unsat" {
			qc.addCore(q, core)
		}
	}
	if r == "unsat" {
		p.discharged += len(batch)
		return
	}
	if r == "restart" {
		p.sent = 0
		p.slv.reset()
		p.flush()
	}
	// some obligation fails (or the batch is undecided): examine them one by one
	for _, a := range batch {
		m, r := p.slv.model(mkNot(a.c), p.vars)
		switch r {
		case "unsat":
			p.discharged++
		case "sat":
			p.fail("assert", a.msg, a.site, m)
		default:
			p.unknownAs++
			p.notes = append(p.notes, "assertion undecided ("+r+"): "+a.msg)
			if r == "restart" {
				p.sent = 0
				p.slv.reset()
				p.flush()
			}
		}
	}
}

// ---------------------------------------------------------------- exploration

type Options struct {
	Workers      int
	MaxPaths     int           // per harness; 0 = unlimited
	MaxInstr     int64         // per path
	Timeout      time.Duration // whole harness
	QueryTimeout time.Duration
	Solver       []string
	Args         []Value // arguments for the entry function (concrete)
	Trace        bool
	Prefix       []Decision // explore only this single path (replay in engine)
	Concrete     map[int]uint64
}

type Result struct {
	Harness     string
	Paths       int // explored to an end (completed + pruned + aborted)
	Completed   int
	Pruned      int
	Aborted     int
	AbortWhy    map[string]int
	Failures    []Failure
	Obligations int
	Discharged  int
	UnknownBr   int
	UnknownAs   int
	Decisions   int
	DataDec     int
	CacheHits   int
	CoreHits    int64
	ModelHits   int64
	Instrs      int64
	Solver      SolverStats
	Wall        time.Duration
	Exhaustive  bool
	BudgetHit   string
	AssertSites map[string]int
	Funcs       map[string]bool
	Samples     []Sample
	Notes       []string
	HangPrefix  []Decision
	HangInputs  []NondetRec
}

type Sample struct {
	Inputs    []NondetRec `json:"inputs"`
	Decisions int         `json:"decisions"`
	Outcome   string      `json:"outcome"`
	PathCond  []string    `json:"path_condition,omitempty"`
	Observed  []string    `json:"observed,omitempty"`
}

type Value = value

// Explore runs the niladic (or concretely parameterised) function fn of the loaded program
// over all feasible decision sequences.
func (pg *Program) Explore(fnName string, pkgPath string, opt Options) (*Result, error) {
	fn := pg.lookupFunc(pkgPath, fnName)
	if fn == nil {
		return nil, fmt.Errorf("harness %s.%s not found", pkgPath, fnName)
	}
	if opt.Workers <= 0 {
		opt.Workers = runtime.NumCPU()
	}
	if opt.MaxInstr == 0 {
		opt.MaxInstr = 50_000_000
	}
	if len(opt.Solver) == 0 {
		opt.Solver = defaultSolver()
	}
	res := &Result{Harness: fnName, AbortWhy: map[string]int{}, AssertSites: map[string]int{}, Funcs: map[string]bool{}}
	t0 := time.Now()
	var mu sync.Mutex
	qc := newQcache()
	cond := sync.NewCond(&mu)
	work := [][]Decision{opt.Prefix}
	active := 0
	stop := false
	seenFail := map[string]int{}

	worker := func() {
		slv := newSolver(opt.Solver, opt.QueryTimeout)
		slv.qc = qc
		defer slv.close()
		var aux *solver
		if os.Getenv("SYMGO_NOAUX") == "" {
			if z, err := exec.LookPath("z3"); err == nil {
				aux = newSolver([]string{z, "-in"}, opt.QueryTimeout)
				defer aux.close()
			}
		}
		in := pg.newInterp()
		in.trace = opt.Trace
		for {
			mu.Lock()
			for len(work) == 0 && active > 0 && !stop {
				cond.Wait()
			}
			if stop || (len(work) == 0 && active == 0) {
				mu.Unlock()
				cond.Broadcast()
				return
			}
			pre := work[len(work)-1]
			work = work[:len(work)-1]
			active++
			mu.Unlock()

			slv.reset()
			p := &pathState{prefix: pre, slv: slv, aux: aux, budget: opt.MaxInstr, assertSites: map[string]int{}, lits: map[*term]bool{}}
			outcome := in.runPath(fn, p, opt.Args)

			mu.Lock()
			active--
			res.Paths++
			switch outcome.kind {
			case "completed":
				res.Completed++
			case "pruned":
				res.Pruned++
			case "aborted":
				res.Aborted++
				res.AbortWhy[outcome.why]++
				if strings.HasPrefix(outcome.why, "instruction budget") && res.HangPrefix == nil {
					res.HangPrefix = append([]Decision{}, p.log...)
					res.HangInputs = p.inputsWithModel(p.anyModelSafe())
				}
			}
			res.Obligations += p.obligations
			res.Discharged += p.discharged
			res.UnknownBr += p.unknownBr
			res.UnknownAs += p.unknownAs
			res.Decisions += len(p.log)
			res.DataDec += p.dataDec
			res.CacheHits += p.cacheHits
			res.Instrs += p.instrs
			for s, n := range p.assertSites {
				res.AssertSites[s] += n
			}
			for f := range in.funcsSeen {
				res.Funcs[f] = true
			}
			for _, n := range p.notes {
				if len(res.Notes) < 20 {
					res.Notes = append(res.Notes, n)
				}
			}
			for _, f := range p.failures {
				key := f.Kind + "|" + f.Site + "|" + f.Msg
				if idx, ok := seenFail[key]; ok {
					res.Failures[idx].Count++
				} else {
					seenFail[key] = len(res.Failures)
					f.Harness = fnName
					res.Failures = append(res.Failures, f)
				}
			}
			if len(res.Samples) < 4 && outcome.kind == "completed" && len(p.failures) == 0 && (len(p.log) > 0 || res.Paths == 1) {
				s := Sample{Inputs: p.inputsWithModel(p.anyModelSafe()), Decisions: len(p.log), Outcome: outcome.kind, Observed: p.observed}
				for i, c := range p.pc {
					if i >= 6 {
						break
					}
					s.PathCond = append(s.PathCond, c.short())
				}
				res.Samples = append(res.Samples, s)
			}
			if opt.Prefix == nil {
				work = append(work, p.pending...)
			}
			if opt.MaxPaths > 0 && res.Paths >= opt.MaxPaths && len(work) > 0 {
				stop = true
				res.BudgetHit = fmt.Sprintf("path budget %d reached with %d prefixes pending", opt.MaxPaths, len(work))
			}
			if opt.Timeout > 0 && time.Since(t0) > opt.Timeout && len(work) > 0 {
				stop = true
				res.BudgetHit = fmt.Sprintf("time budget %v reached with %d prefixes pending", opt.Timeout, len(work))
			}
			slv.stats, res.Solver = SolverStats{}, addStats(res.Solver, slv.stats)
			if aux != nil {
				aux.stats, res.Solver = SolverStats{}, addStats(res.Solver, aux.stats)
			}
			mu.Unlock()
			cond.Broadcast()
		}
	}
	if os.Getenv("SYMGO_PROGRESS") != "" {
		done := make(chan bool)
		defer close(done)
		go func() {
			tk := time.NewTicker(5 * time.Second)
			defer tk.Stop()
			for {
				select {
				case <-done:
					return
				case <-tk.C:
					mu.Lock()
					fmt.Fprintf(os.Stderr, "[progress %s] paths=%d pending=%d active=%d failures=%d queries=%d aborted=%d\n", fnName, res.Paths, len(work), active, len(res.Failures), res.Solver.Queries, res.Aborted)
					mu.Unlock()
				}
			}
		}()
	}
	var wg sync.WaitGroup
	for w := 0; w < opt.Workers; w++ {
		wg.Add(1)
		go func() { defer wg.Done(); worker() }()
	}
	wg.Wait()
	res.Wall = time.Since(t0)
	res.CoreHits, res.ModelHits = qc.CoreHits, qc.ModelHits
	res.Exhaustive = res.BudgetHit == "" && res.Aborted == 0 && res.UnknownAs == 0
	sort.Slice(res.Failures, func(i, j int) bool {
		return res.Failures[i].Site+res.Failures[i].Msg < res.Failures[j].Site+res.Failures[j].Msg
	})
	return res, nil
}

func (p *pathState) anyModelSafe() (m map[string]uint64) {
	defer func() {
		if r := recover(); r != nil {
			m = map[string]uint64{}
		}
	}()
	return p.anyModel()
}

func addStats(a, b SolverStats) SolverStats {
	a.Queries += b.Queries
	a.Sat += b.Sat
	a.Unsat += b.Unsat
	a.Unknown += b.Unknown
	a.Errors += b.Errors
	a.Time += b.Time
	a.Restarts += b.Restarts
	return a
}

type pathOutcome struct {
	kind string // completed, pruned, aborted
	why  string
}

// runPath executes fn once under path state p.
func (in *interpreter) runPath(fn ssaFunc, p *pathState, args []value) (out pathOutcome) {
	in.resetForPath(p)
	defer func() {
		p.instrs = in.instrCount
		r := recover()
		if in.sch != nil {
			in.sch.killAll()
		}
		func() {
			defer func() {
				if r2 := recover(); r2 != nil {
					p.notes = append(p.notes, fmt.Sprintf("assertion batch could not be checked: %v", r2))
					p.unknownAs++
				}
			}()
			p.flushAsserts()
		}()
		if r == nil {
			return
		}
		switch x := r.(type) {
		case pruned:
			out = pathOutcome{kind: "pruned"}
		case pathDone:
			out = pathOutcome{kind: "completed"}
		case crashUnwind:
			out = pathOutcome{kind: "aborted", why: "crash outside RunUntilCrash"}
		case engineAbort:
			out = pathOutcome{kind: "aborted", why: x.why}
		case targetHang:
			func() {
				defer func() {
					if r2 := recover(); r2 != nil {
						out = pathOutcome{kind: "aborted", why: "no model for hang path"}
					}
				}()
				p.fail("hang", x.msg, in.curPos(), p.anyModel())
				out = pathOutcome{kind: "completed"}
			}()
		default:
			msg, engineBug := describePanic(r)
			if engineBug {
				if os.Getenv("SYMGO_DEBUG") != "" {
					fmt.Fprintf(os.Stderr, "engine panic: %v\n%s\n", r, debug.Stack())
				}
				out = pathOutcome{kind: "aborted", why: "unsupported: " + msg}
				return
			}
			site := in.curPos()
			func() {
				defer func() {
					if r2 := recover(); r2 != nil {
						out = pathOutcome{kind: "aborted", why: "no model for panic path"}
					}
				}()
				p.fail("panic", msg, site, p.anyModel())
				out = pathOutcome{kind: "completed"}
			}()
		}
	}()
	in.callTop(fn, args)
	return pathOutcome{kind: "completed"}
}

// describePanic renders a panic value and guesses whether it is an engine defect
// (a Go type assertion on engine-internal types) rather than a target panic.
func describePanic(r any) (string, bool) {
	switch x := r.(type) {
	case targetPanic:
		return "panic: " + toString(x.v), false
	case runtime.Error:
		s := x.Error()
		if strings.Contains(s, "symgo.") || strings.Contains(s, "interface conversion: interface {} is") ||
			strings.Contains(s, "interface conversion: symgo") {
			return s, true
		}
		return "runtime error: " + strings.TrimPrefix(s, "runtime error: "), false
	case string:
		if strings.HasPrefix(x, "unsupported") || strings.Contains(x, "no code for function") ||
			strings.HasPrefix(x, "unexpected") || strings.HasPrefix(x, "get: no value") || strings.Contains(x, "symstr") ||
			strings.HasPrefix(x, "invalid binary op") || strings.HasPrefix(x, "cannot") || strings.HasPrefix(x, "toTerm") ||
			strings.HasPrefix(x, "valueKind") || strings.HasPrefix(x, "kindInfo") || strings.HasPrefix(x, "unknown built-in") {
			return x, true
		}
		return "runtime error: " + x, false
	case error:
		return x.Error(), true
	}
	return fmt.Sprintf("%T: %v", r, r), true
}

var _ = token.NoPos

// curPos: best-effort source position of the instruction being executed.
func (in *interpreter) curPos() string {
	if in.curInstr != nil && in.curInstr.Pos().IsValid() {
		p := in.prog.Fset.Position(in.curInstr.Pos())
		return fmt.Sprintf("%s:%d", shortFile(p.Filename), p.Line)
	}
	if in.curFn != nil {
		return in.curFn.String()
	}
	return "?"
}

// defaultSolver: z3 5.1.0 (z3-new) when present — its incremental bit-vector engine decides
// the roaring key/low-bit constraints in milliseconds where 4.8.12 needs seconds — else
// the system z3. SYMGO_SOLVER overrides (e.g. "z3 -in").
func defaultSolver() []string {
	if s := os.Getenv("SYMGO_SOLVER"); s != "" {
		return strings.Fields(s)
	}
	if p, err := exec.LookPath("z3-new"); err == nil {
		return []string{p, "-in"}
	}
	return []string{"z3", "-in"}
}

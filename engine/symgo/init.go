package symgo

// Lazy, per-package initialisation: a package's globals are zeroed and its own init body
// is run the first time one of its functions or globals is touched on a path. Only
// packages on the allow-list are initialised by interpretation.

import (
	"strings"

	"golang.org/x/tools/go/ssa"
)

var initAllowPrefixes = []string{
	"github.com/specterops/dawgs", "github.com/RoaringBitmap", "github.com/gammazero", "github.com/antlr4-go",
}

var initAllowStd = map[string]bool{
	"strings": true, "bytes": true, "strconv": true, "unicode": true, "unicode/utf8": true, "unicode/utf16": true,
	"sort": true, "math": true, "math/bits": true, "io": true, "container/list": true, "container/heap": true,
	"slices": true, "maps": true, "cmp": true, "path": true, "bufio": true, "io/fs": true,
	"path/filepath": true, "encoding/binary": true, "encoding/hex": true, "context": true, "archive/tar": true,
	"internal/oserror": true, "encoding/base64": true,
}

func (i *interpreter) initAllowed(path string) bool {
	for _, p := range initAllowPrefixes {
		if path == p || strings.HasPrefix(path, p+"/") {
			return true
		}
	}
	for _, p := range i.pg.InitAllow {
		if path == p || strings.HasPrefix(path, p+"/") {
			return true
		}
	}
	return initAllowStd[path]
}

func ensurePkg(i *interpreter, pkg *ssa.Package) {
	if pkg == nil || i.pkgDone[pkg] {
		return
	}
	i.pkgDone[pkg] = true
	for _, m := range pkg.Members {
		if v, ok := m.(*ssa.Global); ok {
			cell := zero(typeparams.MustDeref(v.Type()))
			i.globals[v] = &cell
		}
	}
	if !i.initAllowed(pkg.Pkg.Path()) {
		return
	}
	if f := pkg.Func("init"); f != nil {
		saved := i.runningEnsure
		savedDepth := i.depth
		i.runningEnsure = true
		call(i, nil, 0, f, nil)
		i.runningEnsure = saved
		i.depth = savedDepth
	}
}

package symgo

// A small fmt for engine values, and errors.Is/As (which use reflectlite in the real code).

import (
	"bytes"
	"fmt"
	"go/types"
	"strings"

	"golang.org/x/tools/go/ssa"
)

type fmtMode struct {
	lenient bool // symbolic integers may be rendered as a placeholder (error messages)
}

func (in *interpreter) methodOf(t types.Type, name string) *ssa.Function {
	if t == nil {
		return nil
	}
	ms := in.prog.MethodSets.MethodSet(t)
	for i := 0; i < ms.Len(); i++ {
		sel := ms.At(i)
		if sel.Obj().Name() == name {
			sig := sel.Type().(*types.Signature)
			if sig.Params().Len() == 0 && sig.Results().Len() == 1 {
				if b, ok := sig.Results().At(0).Type().Underlying().(*types.Basic); ok && b.Kind() == types.String {
					return in.prog.MethodValue(sel)
				}
			}
		}
	}
	return nil
}

// fmtArg renders one argument for verb with the given flags text (e.g. "05").
func (in *interpreter) fmtArg(fr *frame, flags string, verb byte, a value, mode fmtMode) symstr {
	it, isIface := a.(iface)
	var t types.Type
	v := a
	if isIface {
		t, v = it.t, it.v
	}
	if verb == 'T' {
		if t == nil {
			return toSymstr("<nil>")
		}
		return toSymstr(t.String())
	}
	if t == nil && isIface {
		if verb == 'v' || verb == 's' {
			return toSymstr("<nil>")
		}
		return toSymstr("%!" + string(verb) + "(<nil>)")
	}
	// Error() / String() methods
	if verb == 'v' || verb == 's' || verb == 'q' {
		if t != nil {
			for _, mn := range []string{"Error", "String"} {
				if m := in.methodOf(t, mn); m != nil {
					if p, ok := v.(*value); ok && p == nil {
						if _, isPtr := t.Underlying().(*types.Pointer); isPtr {
							return toSymstr("<nil>")
						}
					}
					s := toSymstr(call(in, fr, 0, m, []value{v}))
					if verb == 'q' {
						return quoteSym(s)
					}
					return s
				}
			}
		}
	}
	switch x := v.(type) {
	case string:
		if verb == 'v' || verb == 's' {
			if flags == "" {
				return toSymstr(x)
			}
		}
		return toSymstr(fmt.Sprintf("%"+flags+string(verb), x))
	case symstr:
		switch verb {
		case 'v', 's':
			return x
		case 'q':
			if mode.lenient {
				if _, conc := normStr(x).(string); !conc {
					return toSymstr("\"<symbolic>\"")
				}
			}
			return quoteSym(x)
		}
		if mode.lenient {
			return toSymstr("<symbolic>")
		}
		panic(engineAbort{"unsupported: fmt verb %" + string(verb) + " on a symbolic string"})
	case sym:
		if mode.lenient {
			return toSymstr("<sym>")
		}
		panic(engineAbort{"unsupported: formatting a symbolic integer with fmt (bound the value or format it in the harness)"})
	case bool, int, int8, int16, int32, int64, uint, uint8, uint16, uint32, uint64, uintptr, float32, float64, complex64, complex128:
		return toSymstr(fmt.Sprintf("%"+flags+string(verb), x))
	case []value:
		if verb == 's' || verb == 'x' || verb == 'q' {
			// []byte
			allBytes := true
			for _, e := range x {
				if _, ok := e.(uint8); !ok {
					if se, ok := e.(sym); !ok || se.k != types.Uint8 {
						allBytes = false
					}
				}
			}
			if allBytes && verb == 's' {
				return symstr(x)
			}
		}
		var out symstr
		out = append(out, '[')
		for i, e := range x {
			if i > 0 {
				out = append(out, ' ')
			}
			var et types.Type
			if t != nil {
				if st, ok := t.Underlying().(*types.Slice); ok {
					et = st.Elem()
				}
			}
			out = append(out, in.fmtArg(fr, "", verb, wrapT(et, e), mode)...)
		}
		return append(out, ']')
	case *value:
		if x == nil {
			return toSymstr("<nil>")
		}
		if st, ok := (*x).(structure); ok && verb == 'v' {
			return append(symstr{uint8('&')}, in.fmtStruct(fr, t, st, verb, mode)...)
		}
		return toSymstr(fmt.Sprintf("0x%x", fmt.Sprintf("%p", x)))
	case structure:
		return in.fmtStruct(fr, t, x, verb, mode)
	case array:
		var out symstr
		out = append(out, '[')
		for i, e := range x {
			if i > 0 {
				out = append(out, ' ')
			}
			out = append(out, in.fmtArg(fr, "", verb, e, mode)...)
		}
		return append(out, ']')
	case *omap:
		var out symstr
		out = append(out, toSymstr("map[")...)
		if x != nil {
			first := true
			for _, e := range x.ents {
				if e.dead {
					continue
				}
				if !first {
					out = append(out, ' ')
				}
				first = false
				out = append(out, in.fmtArg(fr, "", 'v', e.key, mode)...)
				out = append(out, ':')
				out = append(out, in.fmtArg(fr, "", 'v', e.val, mode)...)
			}
		}
		return append(out, ']')
	case iface:
		return in.fmtArg(fr, flags, verb, x, mode)
	case nil:
		return toSymstr("<nil>")
	case *ssa.Function, *closure:
		return toSymstr("0xfunc")
	}
	return toSymstr(fmt.Sprintf("%%!%c(%T)", verb, v))
}

func wrapT(t types.Type, v value) value {
	if t == nil {
		return v
	}
	if _, ok := v.(iface); ok {
		return v
	}
	if _, ok := t.Underlying().(*types.Interface); ok {
		return v
	}
	return iface{t: t, v: v}
}

func (in *interpreter) fmtStruct(fr *frame, t types.Type, st structure, verb byte, mode fmtMode) symstr {
	var out symstr
	out = append(out, '{')
	var stt *types.Struct
	if t != nil {
		tt := t
		if p, ok := tt.Underlying().(*types.Pointer); ok {
			tt = p.Elem()
		}
		stt, _ = tt.Underlying().(*types.Struct)
	}
	for i, f := range st {
		if i > 0 {
			out = append(out, ' ')
		}
		var ft types.Type
		if stt != nil && i < stt.NumFields() {
			ft = stt.Field(i).Type()
		}
		// avoid unbounded recursion through pointers: print nested pointers as addresses
		if p, ok := f.(*value); ok && p != nil {
			out = append(out, toSymstr("0xptr")...)
			continue
		}
		out = append(out, in.fmtArg(fr, "", 'v', wrapT(ft, f), mode)...)
	}
	return append(out, '}')
}

func quoteSym(s symstr) symstr {
	if str, ok := normStr(s).(string); ok {
		return toSymstr(fmt.Sprintf("%q", str))
	}
	panic(engineAbort{"unsupported: %q on a symbolic string"})
}

// sprintf formats; wrapped collects %w operands.
func (in *interpreter) sprintf(fr *frame, format value, args []value, mode fmtMode, wrapped *[]value) symstr {
	f, ok := format.(string)
	if !ok {
		panic(engineAbort{"unsupported: symbolic format string"})
	}
	var out symstr
	argi := 0
	for i := 0; i < len(f); i++ {
		c := f[i]
		if c != '%' {
			out = append(out, c)
			continue
		}
		i++
		if i >= len(f) {
			out = append(out, toSymstr("%!(NOVERB)")...)
			break
		}
		start := i
		for i < len(f) && strings.IndexByte("+-# 0123456789.*[]", f[i]) >= 0 {
			i++
		}
		if i >= len(f) {
			out = append(out, toSymstr("%!(NOVERB)")...)
			break
		}
		flags := f[start:i]
		verb := f[i]
		if verb == '%' {
			out = append(out, '%')
			continue
		}
		if strings.Contains(flags, "*") || strings.Contains(flags, "[") {
			panic(engineAbort{"unsupported: fmt * or [n] flags"})
		}
		if argi >= len(args) {
			out = append(out, toSymstr("%!"+string(verb)+"(MISSING)")...)
			continue
		}
		a := args[argi]
		argi++
		if verb == 'w' {
			if wrapped != nil {
				*wrapped = append(*wrapped, a)
			}
			verb = 'v'
		}
		out = append(out, in.fmtArg(fr, flags, verb, a, mode)...)
	}
	if argi < len(args) {
		out = append(out, toSymstr("%!(EXTRA)")...)
	}
	return out
}

func (in *interpreter) sprint(fr *frame, args []value, ln bool, mode fmtMode) symstr {
	var out symstr
	prevString := false
	for i, a := range args {
		isString := false
		if it, ok := a.(iface); ok {
			switch it.v.(type) {
			case string, symstr:
				isString = it.t != nil
			}
		}
		if i > 0 && (ln || (!isString && !prevString)) {
			out = append(out, ' ')
		}
		out = append(out, in.fmtArg(fr, "", 'v', a, mode)...)
		prevString = isString
	}
	if ln {
		out = append(out, '\n')
	}
	return out
}

func (in *interpreter) writeTo(fr *frame, w value, s symstr) value {
	wi := w.(iface)
	if wi.t == nil {
		panic("nil io.Writer")
	}
	var m *ssa.Function
	ms := in.prog.MethodSets.MethodSet(wi.t)
	for i := 0; i < ms.Len(); i++ {
		if ms.At(i).Obj().Name() == "Write" {
			m = in.prog.MethodValue(ms.At(i))
		}
	}
	if m == nil {
		panic(engineAbort{"unsupported: writer without Write method"})
	}
	buf := make([]value, len(s))
	copy(buf, s)
	return call(in, fr, 0, m, []value{wi.v, buf})
}

func init() {
	externals["fmt.Sprintf"] = func(fr *frame, args []value) value {
		return normStr(fr.i.sprintf(fr, args[0], args[1].([]value), fmtMode{}, nil))
	}
	externals["fmt.Sprint"] = func(fr *frame, args []value) value {
		return normStr(fr.i.sprint(fr, args[0].([]value), false, fmtMode{}))
	}
	externals["fmt.Sprintln"] = func(fr *frame, args []value) value {
		return normStr(fr.i.sprint(fr, args[0].([]value), true, fmtMode{}))
	}
	externals["fmt.Appendf"] = func(fr *frame, args []value) value {
		return append(args[0].([]value), fr.i.sprintf(fr, args[1], args[2].([]value), fmtMode{}, nil)...)
	}
	externals["fmt.Fprintf"] = func(fr *frame, args []value) value {
		return fr.i.writeTo(fr, args[0], fr.i.sprintf(fr, args[1], args[2].([]value), fmtMode{}, nil))
	}
	externals["fmt.Fprint"] = func(fr *frame, args []value) value {
		return fr.i.writeTo(fr, args[0], fr.i.sprint(fr, args[1].([]value), false, fmtMode{}))
	}
	externals["fmt.Fprintln"] = func(fr *frame, args []value) value {
		return fr.i.writeTo(fr, args[0], fr.i.sprint(fr, args[1].([]value), true, fmtMode{}))
	}
	externals["fmt.Printf"] = func(fr *frame, args []value) value { return tuple{0, iface{}} }
	externals["fmt.Println"] = externals["fmt.Printf"]
	externals["fmt.Print"] = externals["fmt.Printf"]
	externals["fmt.Errorf"] = func(fr *frame, args []value) value {
		in := fr.i
		var wrapped []value
		msg := normStr(in.sprintf(fr, args[0], args[1].([]value), fmtMode{lenient: true}, &wrapped))
		fmtPkg := in.pg.Package("fmt")
		switch {
		case len(wrapped) == 0 || fmtPkg == nil:
			return errValue(in, msg)
		case len(wrapped) == 1:
			we := wrapped[0]
			if wi, ok := we.(iface); !ok || wi.t == nil || !types.Implements(wi.t, errorIface()) {
				return errValue(in, msg)
			}
			named := fmtPkg.Type("wrapError").Type()
			var cellv value = structure{msg, we}
			return iface{t: types.NewPointer(named), v: &cellv}
		default:
			named := fmtPkg.Type("wrapErrors").Type()
			var errs []value
			for _, w := range wrapped {
				if wi, ok := w.(iface); ok && wi.t != nil && types.Implements(wi.t, errorIface()) {
					errs = append(errs, w)
				}
			}
			var cellv value = structure{msg, errs}
			return iface{t: types.NewPointer(named), v: &cellv}
		}
	}
	externals["errors.Is"] = func(fr *frame, args []value) value {
		return fr.i.errorsIs(fr, args[0].(iface), args[1].(iface))
	}
	externals["errors.As"] = func(fr *frame, args []value) value {
		return fr.i.errorsAs(fr, args[0].(iface), args[1].(iface))
	}
	externals["internal/reflectlite.TypeOf"] = func(fr *frame, args []value) value {
		panic(engineAbort{"unsupported: reflectlite"})
	}
}

func errorIface() *types.Interface {
	return types.Universe.Lookup("error").Type().Underlying().(*types.Interface)
}

func (in *interpreter) findMethod(t types.Type, name string) *ssa.Function {
	ms := in.prog.MethodSets.MethodSet(t)
	for i := 0; i < ms.Len(); i++ {
		if ms.At(i).Obj().Name() == name {
			return in.prog.MethodValue(ms.At(i))
		}
	}
	return nil
}

func (in *interpreter) errorsIs(fr *frame, err, target iface) value {
	if err.t == nil || target.t == nil {
		return err.t == nil && target.t == nil
	}
	comparable := types.Comparable(target.t)
	var walk func(e iface) bool
	walk = func(e iface) bool {
		for e.t != nil {
			if comparable && types.Identical(e.t, target.t) {
				if in.truth(eqValue(in, e.t, e.v, target.v)) {
					return true
				}
			}
			if m := in.findMethod(e.t, "Is"); m != nil && m.Signature.Params().Len() == 1 {
				if in.truth(call(in, fr, 0, m, []value{e.v, target})) {
					return true
				}
			}
			m := in.findMethod(e.t, "Unwrap")
			if m == nil || m.Signature.Results().Len() != 1 {
				return false
			}
			res := call(in, fr, 0, m, []value{e.v})
			switch r := res.(type) {
			case iface:
				e = r
			case []value:
				for _, x := range r {
					if walk(x.(iface)) {
						return true
					}
				}
				return false
			default:
				return false
			}
		}
		return false
	}
	return walk(err)
}

func (in *interpreter) errorsAs(fr *frame, err, target iface) value {
	if target.t == nil {
		panic("errors: target cannot be nil")
	}
	pt, ok := target.t.Underlying().(*types.Pointer)
	if !ok {
		panic("errors: target must be a non-nil pointer")
	}
	tt := pt.Elem()
	cellp := target.v.(*value)
	var walk func(e iface) bool
	walk = func(e iface) bool {
		for e.t != nil {
			if it, ok := tt.Underlying().(*types.Interface); ok {
				if types.Implements(e.t, it) {
					*cellp = e
					return true
				}
			} else if types.Identical(e.t, tt) {
				*cellp = e.v
				return true
			}
			if m := in.findMethod(e.t, "As"); m != nil && m.Signature.Params().Len() == 1 {
				if in.truth(call(in, fr, 0, m, []value{e.v, target})) {
					return true
				}
			}
			m := in.findMethod(e.t, "Unwrap")
			if m == nil || m.Signature.Results().Len() != 1 {
				return false
			}
			res := call(in, fr, 0, m, []value{e.v})
			switch r := res.(type) {
			case iface:
				e = r
			case []value:
				for _, x := range r {
					if walk(x.(iface)) {
						return true
					}
				}
				return false
			default:
				return false
			}
		}
		return false
	}
	return walk(err)
}

var _ = bytes.MinRead

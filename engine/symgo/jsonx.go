package symgo

// encoding/json for engine values. The reflective encoder/decoder of the standard library
// cannot be interpreted (reflect, unsafe, sync caches); this file implements the same
// mapping between Go values and JSON text, type-directed over the engine heap:
// struct tags (name, omitempty, omitzero, "-"), embedded structs, sorted map keys, []byte as
// base64, pointers, interfaces, case-insensitive field matching, DisallowUnknownFields.
// Text-level work (string escaping, indentation, tokenising) is delegated to the native
// encoding/json. Values with symbolic parts are not supported (engineAbort): harnesses keep
// what reaches JSON concrete. time.Time is encoded as the zero instant (the engine's clock
// is a stub). The byte output equals the native encoder's for the supported types, which
// the native differential runs of the harnesses confirm.

import (
	"bytes"
	"encoding/base64"
	"encoding/json"
	"fmt"
	"go/types"
	"io"
	"reflect"
	"sort"
	"strconv"
	"strings"
)

type jsonDecState struct {
	buf  []byte
	off  int
	eof  bool
	rerr value // error returned by the reader (engine value) other than io.EOF
}

func unsupportedJSON(msg string) {
	panic(engineAbort{"unsupported: encoding/json model: " + msg})
}

func concreteStr(v value) (string, bool) {
	switch s := v.(type) {
	case string:
		return s, true
	case symstr:
		b := make([]byte, len(s))
		for i, c := range s {
			cc, ok := c.(uint8)
			if !ok {
				return "", false
			}
			b[i] = cc
		}
		return string(b), true
	}
	return "", false
}

type jsonField struct {
	name      string
	index     []int
	omitEmpty bool
	omitZero  bool
	typ       types.Type
}

// jsonFields lists the JSON-visible fields of a struct (embedded structs flattened; on a
// name clash the shallowest field wins, as in encoding/json for the cases that occur).
func jsonFields(st *types.Struct, prefix []int, depth int, out *[]jsonField, seenDepth map[string]int) {
	for i := 0; i < st.NumFields(); i++ {
		f := st.Field(i)
		tag := reflect.StructTag(st.Tag(i)).Get("json")
		if tag == "-" {
			continue
		}
		name, opts, _ := strings.Cut(tag, ",")
		idx := append(append([]int{}, prefix...), i)
		if f.Anonymous() && name == "" {
			ft := f.Type()
			if p, ok := ft.Underlying().(*types.Pointer); ok {
				ft = p.Elem()
			}
			if est, ok := ft.Underlying().(*types.Struct); ok {
				if _, isPtr := f.Type().Underlying().(*types.Pointer); isPtr {
					unsupportedJSON("embedded pointer to struct")
				}
				jsonFields(est, idx, depth+1, out, seenDepth)
				continue
			}
		}
		if !f.Exported() {
			continue
		}
		if name == "" {
			name = f.Name()
		}
		jf := jsonField{name: name, index: idx, typ: f.Type()}
		for _, o := range strings.Split(opts, ",") {
			switch o {
			case "omitempty":
				jf.omitEmpty = true
			case "omitzero":
				jf.omitZero = true
			case "string":
				unsupportedJSON("the ,string option")
			}
		}
		if d, dup := seenDepth[name]; dup {
			if d <= depth {
				continue
			}
			for k := range *out {
				if (*out)[k].name == name {
					(*out)[k] = jf
				}
			}
			seenDepth[name] = depth
			continue
		}
		seenDepth[name] = depth
		*out = append(*out, jf)
	}
}

func structFieldsJSON(st *types.Struct) []jsonField {
	var out []jsonField
	jsonFields(st, nil, 0, &out, map[string]int{})
	return out
}

func hasMethod(in *interpreter, t types.Type, name string) bool {
	for _, tt := range []types.Type{t, types.NewPointer(t)} {
		ms := in.prog.MethodSets.MethodSet(tt)
		for i := 0; i < ms.Len(); i++ {
			if ms.At(i).Obj().Name() == name {
				return true
			}
		}
	}
	return false
}

func isEmptyJSON(v value, t types.Type) bool {
	switch ut := t.Underlying().(type) {
	case *types.Basic:
		switch x := v.(type) {
		case bool:
			return !x
		case string:
			return x == ""
		case symstr:
			return len(x) == 0
		case float32:
			return x == 0
		case float64:
			return x == 0
		case sym:
			unsupportedJSON("omitempty on a symbolic scalar")
		}
		if ut.Info()&types.IsInteger != 0 {
			return asInt64(v) == 0
		}
	case *types.Pointer:
		p, _ := v.(*value)
		return p == nil
	case *types.Interface:
		it, _ := v.(iface)
		return it.t == nil
	case *types.Slice:
		s, _ := v.([]value)
		return len(s) == 0
	case *types.Map:
		m, _ := v.(*omap)
		return m.len() == 0
	case *types.Array:
		return ut.Len() == 0
	}
	return false
}

func isZeroJSON(in *interpreter, v value, t types.Type) bool {
	return in.truth(eqValue(in, t, v, zero(t)))
}

type jsonEnc struct {
	in         *interpreter
	escapeHTML bool
	buf        bytes.Buffer
}

func (e *jsonEnc) str(s string) {
	var b bytes.Buffer
	enc := json.NewEncoder(&b)
	enc.SetEscapeHTML(e.escapeHTML)
	enc.Encode(s)
	e.buf.Write(bytes.TrimRight(b.Bytes(), "\n"))
}

func (e *jsonEnc) encode(v value, t types.Type) {
	in := e.in
	if k := namedKey(t); k != "" {
		if k == "time.Time" {
			e.buf.WriteString(`"0001-01-01T00:00:00Z"`)
			return
		}
		if k == "encoding/json.RawMessage" || k == "encoding/json.Number" || hasMethod(in, t, "MarshalJSON") || hasMethod(in, t, "MarshalText") {
			unsupportedJSON("type " + k + " has its own marshalling")
		}
	}
	switch ut := t.Underlying().(type) {
	case *types.Basic:
		switch x := v.(type) {
		case bool:
			e.buf.WriteString(strconv.FormatBool(x))
		case string, symstr:
			s, ok := concreteStr(x)
			if !ok {
				unsupportedJSON("string with symbolic bytes")
			}
			e.str(s)
		case float32:
			e.float(float64(x), 32)
		case float64:
			e.float(x, 64)
		case sym:
			unsupportedJSON("symbolic scalar")
		default:
			if ut.Info()&types.IsUnsigned != 0 {
				e.buf.WriteString(strconv.FormatUint(uint64(asInt64(v)), 10))
			} else if ut.Info()&types.IsInteger != 0 {
				e.buf.WriteString(strconv.FormatInt(asInt64(v), 10))
			} else {
				unsupportedJSON(fmt.Sprintf("basic value %T", v))
			}
		}
	case *types.Pointer:
		p, _ := v.(*value)
		if p == nil {
			e.buf.WriteString("null")
			return
		}
		e.encode(*p, ut.Elem())
	case *types.Interface:
		it, _ := v.(iface)
		if it.t == nil {
			e.buf.WriteString("null")
			return
		}
		e.encode(it.v, it.t)
	case *types.Struct:
		s := v.(structure)
		e.buf.WriteByte('{')
		first := true
		for _, f := range structFieldsJSON(ut) {
			fv, ft := value(s), types.Type(ut)
			for _, i := range f.index {
				fst := ft.Underlying().(*types.Struct)
				fv, ft = fv.(structure)[i], fst.Field(i).Type()
			}
			if f.omitEmpty && isEmptyJSON(fv, ft) {
				continue
			}
			if f.omitZero && isZeroJSON(in, fv, ft) {
				continue
			}
			if !first {
				e.buf.WriteByte(',')
			}
			first = false
			e.str(f.name)
			e.buf.WriteByte(':')
			e.encode(fv, ft)
		}
		e.buf.WriteByte('}')
	case *types.Map:
		m, _ := v.(*omap)
		if m == nil {
			e.buf.WriteString("null")
			return
		}
		type kv struct {
			k string
			v value
		}
		var kvs []kv
		kb, _ := ut.Key().Underlying().(*types.Basic)
		for _, ent := range m.ents {
			if ent.dead {
				continue
			}
			var ks string
			switch {
			case kb != nil && kb.Info()&types.IsString != 0:
				s, ok := concreteStr(ent.key)
				if !ok {
					unsupportedJSON("map key with symbolic bytes")
				}
				ks = s
			case kb != nil && kb.Info()&types.IsUnsigned != 0:
				ks = strconv.FormatUint(uint64(asInt64(ent.key)), 10)
			case kb != nil && kb.Info()&types.IsInteger != 0:
				ks = strconv.FormatInt(asInt64(ent.key), 10)
			default:
				unsupportedJSON("map key type " + ut.Key().String())
			}
			kvs = append(kvs, kv{ks, ent.val})
		}
		sort.Slice(kvs, func(i, j int) bool { return kvs[i].k < kvs[j].k })
		e.buf.WriteByte('{')
		for i, p := range kvs {
			if i > 0 {
				e.buf.WriteByte(',')
			}
			e.str(p.k)
			e.buf.WriteByte(':')
			e.encode(p.v, ut.Elem())
		}
		e.buf.WriteByte('}')
	case *types.Slice:
		s, _ := v.([]value)
		if s == nil {
			e.buf.WriteString("null")
			return
		}
		if eb, ok := ut.Elem().Underlying().(*types.Basic); ok && eb.Kind() == types.Uint8 {
			raw := make([]byte, len(s))
			for i, c := range s {
				cc, ok := c.(uint8)
				if !ok {
					unsupportedJSON("[]byte with symbolic bytes")
				}
				raw[i] = cc
			}
			e.str(base64.StdEncoding.EncodeToString(raw))
			return
		}
		e.buf.WriteByte('[')
		for i := range s {
			if i > 0 {
				e.buf.WriteByte(',')
			}
			e.encode(s[i], ut.Elem())
		}
		e.buf.WriteByte(']')
	case *types.Array:
		a := v.(array)
		e.buf.WriteByte('[')
		for i := range a {
			if i > 0 {
				e.buf.WriteByte(',')
			}
			e.encode(a[i], ut.Elem())
		}
		e.buf.WriteByte(']')
	default:
		unsupportedJSON("type " + t.String())
	}
}

func (e *jsonEnc) float(f float64, bits int) {
	b, err := json.Marshal(f)
	if bits == 32 {
		b, err = json.Marshal(float32(f))
	}
	if err != nil {
		unsupportedJSON("float " + err.Error())
	}
	e.buf.Write(b)
}

// marshalValue encodes the dynamic value of an `any` argument.
func marshalValue(in *interpreter, arg value, escapeHTML bool) []byte {
	e := &jsonEnc{in: in, escapeHTML: escapeHTML}
	it, _ := arg.(iface)
	if it.t == nil {
		return []byte("null")
	}
	e.encode(it.v, it.t)
	return e.buf.Bytes()
}

func bytesValue(b []byte) value {
	out := make([]value, len(b))
	for i, c := range b {
		out[i] = c
	}
	return out
}

func concreteBytes(v value) ([]byte, bool) {
	s, _ := v.([]value)
	out := make([]byte, len(s))
	for i, c := range s {
		cc, ok := c.(uint8)
		if !ok {
			return nil, false
		}
		out[i] = cc
	}
	return out, true
}

// ---- decoding ---------------------------------------------------------------------------

type jsonDec struct {
	in       *interpreter
	disallow bool
	err      string
}

func (d *jsonDec) fail(format string, args ...any) {
	if d.err == "" {
		d.err = "json: " + fmt.Sprintf(format, args...)
	}
}

var emptyIfaceType = types.NewInterfaceType(nil, nil).Complete()

func (d *jsonDec) generic(g any) value {
	switch x := g.(type) {
	case nil:
		return iface{}
	case bool:
		return iface{t: types.Typ[types.Bool], v: x}
	case string:
		return iface{t: types.Typ[types.String], v: x}
	case json.Number:
		f, err := strconv.ParseFloat(string(x), 64)
		if err != nil {
			d.fail("cannot unmarshal number %s into Go value of type float64", string(x))
		}
		return iface{t: types.Typ[types.Float64], v: f}
	case []any:
		out := make([]value, len(x))
		for i := range x {
			out[i] = d.generic(x[i])
		}
		return iface{t: types.NewSlice(emptyIfaceType), v: out}
	case map[string]any:
		m := newOmap(types.Typ[types.String])
		keys := make([]string, 0, len(x))
		for k := range x {
			keys = append(keys, k)
		}
		sort.Strings(keys)
		for _, k := range keys {
			m.insert(d.in, k, d.generic(x[k]))
		}
		return iface{t: types.NewMap(types.Typ[types.String], emptyIfaceType), v: m}
	}
	unsupportedJSON(fmt.Sprintf("generic value %T", g))
	return nil
}

func jsonKindName(g any) string {
	switch g.(type) {
	case bool:
		return "bool"
	case string:
		return "string"
	case json.Number:
		return "number"
	case []any:
		return "array"
	case map[string]any:
		return "object"
	}
	return "null"
}

// assign returns the new value of a variable of type t (currently old) after decoding g.
func (d *jsonDec) assign(g any, t types.Type, old value) value {
	in := d.in
	if k := namedKey(t); k != "" {
		if k == "time.Time" {
			if _, ok := g.(string); !ok && g != nil {
				d.fail("cannot unmarshal %s into Go value of type time.Time", jsonKindName(g))
			}
			return old
		}
		if k == "encoding/json.RawMessage" || k == "encoding/json.Number" || hasMethod(in, t, "UnmarshalJSON") || hasMethod(in, t, "UnmarshalText") {
			unsupportedJSON("type " + k + " has its own unmarshalling")
		}
	}
	if g == nil {
		switch t.Underlying().(type) {
		case *types.Pointer, *types.Interface, *types.Map, *types.Slice:
			return zero(t)
		}
		return old
	}
	switch ut := t.Underlying().(type) {
	case *types.Pointer:
		p, _ := old.(*value)
		if p == nil {
			p = new(value)
			*p = zero(ut.Elem())
		}
		*p = d.assign(g, ut.Elem(), *p)
		return p
	case *types.Interface:
		if ut.NumMethods() != 0 {
			d.fail("cannot unmarshal %s into Go value of type %s", jsonKindName(g), t.String())
			return old
		}
		return d.generic(g)
	case *types.Struct:
		obj, ok := g.(map[string]any)
		if !ok {
			d.fail("cannot unmarshal %s into Go value of type %s", jsonKindName(g), t.String())
			return old
		}
		s := append(structure{}, old.(structure)...)
		fields := structFieldsJSON(ut)
		keys := make([]string, 0, len(obj))
		for k := range obj {
			keys = append(keys, k)
		}
		sort.Strings(keys)
		for _, k := range keys {
			var f *jsonField
			for i := range fields {
				if fields[i].name == k {
					f = &fields[i]
					break
				}
			}
			if f == nil {
				for i := range fields {
					if strings.EqualFold(fields[i].name, k) {
						f = &fields[i]
						break
					}
				}
			}
			if f == nil {
				if d.disallow {
					d.fail("unknown field %q", k)
				}
				continue
			}
			s = setPath(s, ut, f.index, func(oldField value, ft types.Type) value {
				return d.assign(obj[k], ft, oldField)
			}).(structure)
		}
		return s
	case *types.Map:
		obj, ok := g.(map[string]any)
		if !ok {
			d.fail("cannot unmarshal %s into Go value of type %s", jsonKindName(g), t.String())
			return old
		}
		m, _ := old.(*omap)
		if m == nil {
			m = newOmap(ut.Key())
		}
		kb, _ := ut.Key().Underlying().(*types.Basic)
		keys := make([]string, 0, len(obj))
		for k := range obj {
			keys = append(keys, k)
		}
		sort.Strings(keys)
		for _, k := range keys {
			var kv value
			switch {
			case kb != nil && kb.Info()&types.IsString != 0:
				kv = k
			case kb != nil && kb.Info()&types.IsUnsigned != 0:
				n, err := strconv.ParseUint(k, 10, 64)
				if err != nil {
					d.fail("cannot unmarshal number %s into Go value of type %s", k, ut.Key().String())
					continue
				}
				kv = constOfKind(kb.Kind(), n)
			case kb != nil && kb.Info()&types.IsInteger != 0:
				n, err := strconv.ParseInt(k, 10, 64)
				if err != nil {
					d.fail("cannot unmarshal number %s into Go value of type %s", k, ut.Key().String())
					continue
				}
				kv = constOfKind(kb.Kind(), uint64(n))
			default:
				unsupportedJSON("map key type " + ut.Key().String())
			}
			m.insert(in, kv, d.assign(obj[k], ut.Elem(), zero(ut.Elem())))
		}
		return m
	case *types.Slice:
		if eb, ok := ut.Elem().Underlying().(*types.Basic); ok && eb.Kind() == types.Uint8 {
			if s, ok := g.(string); ok {
				raw, err := base64.StdEncoding.DecodeString(s)
				if err != nil {
					d.fail("%v", err)
					return old
				}
				return bytesValue(raw)
			}
		}
		arr, ok := g.([]any)
		if !ok {
			d.fail("cannot unmarshal %s into Go value of type %s", jsonKindName(g), t.String())
			return old
		}
		out := make([]value, len(arr))
		for i := range arr {
			out[i] = d.assign(arr[i], ut.Elem(), zero(ut.Elem()))
		}
		return out
	case *types.Array:
		arr, ok := g.([]any)
		if !ok {
			d.fail("cannot unmarshal %s into Go value of type %s", jsonKindName(g), t.String())
			return old
		}
		out := append(array{}, old.(array)...)
		for i := range out {
			if i < len(arr) {
				out[i] = d.assign(arr[i], ut.Elem(), out[i])
			} else {
				out[i] = zero(ut.Elem())
			}
		}
		return out
	case *types.Basic:
		switch {
		case ut.Info()&types.IsBoolean != 0:
			if b, ok := g.(bool); ok {
				return b
			}
		case ut.Info()&types.IsString != 0:
			if s, ok := g.(string); ok {
				return s
			}
		case ut.Info()&types.IsFloat != 0:
			if n, ok := g.(json.Number); ok {
				f, err := strconv.ParseFloat(string(n), 64)
				if err == nil {
					if ut.Kind() == types.Float32 {
						return float32(f)
					}
					return f
				}
			}
		case ut.Info()&types.IsUnsigned != 0:
			if n, ok := g.(json.Number); ok {
				u, err := strconv.ParseUint(string(n), 10, 64)
				if err == nil && fitsUnsigned(u, ut.Kind(), in) {
					return constOfKind(ut.Kind(), u)
				}
				d.fail("cannot unmarshal number %s into Go value of type %s", string(n), t.String())
				return old
			}
		case ut.Info()&types.IsInteger != 0:
			if n, ok := g.(json.Number); ok {
				i, err := strconv.ParseInt(string(n), 10, 64)
				if err == nil && fitsSigned(i, ut.Kind(), in) {
					return constOfKind(ut.Kind(), uint64(i))
				}
				d.fail("cannot unmarshal number %s into Go value of type %s", string(n), t.String())
				return old
			}
		}
		d.fail("cannot unmarshal %s into Go value of type %s", jsonKindName(g), t.String())
		return old
	}
	unsupportedJSON("decoding into " + t.String())
	return old
}

func fitsUnsigned(u uint64, k types.BasicKind, in *interpreter) bool {
	switch k {
	case types.Uint8:
		return u <= 0xff
	case types.Uint16:
		return u <= 0xffff
	case types.Uint32:
		return u <= 0xffffffff
	}
	return true
}

func fitsSigned(i int64, k types.BasicKind, in *interpreter) bool {
	switch k {
	case types.Int8:
		return i >= -128 && i <= 127
	case types.Int16:
		return i >= -32768 && i <= 32767
	case types.Int32:
		return i >= -(1<<31) && i <= (1<<31)-1
	}
	return true
}

// setPath rebuilds struct s with the field at index path replaced by f(old).
func setPath(v value, t types.Type, path []int, f func(old value, ft types.Type) value) value {
	if len(path) == 0 {
		return f(v, t)
	}
	st := t.Underlying().(*types.Struct)
	s := append(structure{}, v.(structure)...)
	s[path[0]] = setPath(s[path[0]], st.Field(path[0]).Type(), path[1:], f)
	return s
}

// decodeInto decodes one JSON value from data into the variable ptrArg (an `any` holding a
// pointer) and returns the number of bytes consumed and an error message ("" = ok,
// "EOF" = no value).
func decodeInto(in *interpreter, data []byte, ptrArg value, disallow bool) (int, string) {
	dec := json.NewDecoder(bytes.NewReader(data))
	dec.UseNumber()
	var g any
	if err := dec.Decode(&g); err != nil {
		if err == io.EOF {
			return len(data), "EOF"
		}
		return len(data), err.Error()
	}
	n := int(dec.InputOffset())
	it, _ := ptrArg.(iface)
	if it.t == nil {
		return n, "json: Unmarshal(nil)"
	}
	pt, ok := it.t.Underlying().(*types.Pointer)
	p, _ := it.v.(*value)
	if !ok || p == nil {
		return n, "json: Unmarshal(non-pointer " + it.t.String() + ")"
	}
	d := &jsonDec{in: in, disallow: disallow}
	nv := d.assign(g, pt.Elem(), *p)
	// like encoding/json, what was decoded before an error stays assigned
	*p = nv
	return n, d.err
}

func structFieldByName(v value, t types.Type, name string) *value {
	st := t.Underlying().(*types.Struct)
	s := v.(structure)
	for i := 0; i < st.NumFields(); i++ {
		if st.Field(i).Name() == name {
			return &s[i]
		}
	}
	panic(engineAbort{"unsupported: field " + name + " not found in " + t.String()})
}

// callMethod invokes the method name of the dynamic value of the interface value recv.
func callMethod(in *interpreter, recv value, name string, args ...value) value {
	it, _ := recv.(iface)
	if it.t == nil {
		panic(engineAbort{"unsupported: method " + name + " called on a nil interface inside a model"})
	}
	ms := in.prog.MethodSets.MethodSet(it.t)
	for i := 0; i < ms.Len(); i++ {
		if ms.At(i).Obj().Name() == name {
			fn := in.prog.MethodValue(ms.At(i))
			return call(in, nil, 0, fn, append([]value{it.v}, args...))
		}
	}
	panic(engineAbort{"unsupported: no method " + name + " on " + it.t.String()})
}

func jsonError(in *interpreter, msg string) value {
	if msg == "EOF" {
		return in.ioEOF()
	}
	return errValue(in, msg)
}

// ioEOF returns the io.EOF error value of the program.
func (in *interpreter) ioEOF() value { return in.globalValue("io", "EOF") }

// globalValue reads a package-level variable (initialising its package if allowed).
func (in *interpreter) globalValue(pkgPath, name string) value {
	p := in.pg.Package(pkgPath)
	if p == nil || p.Var(name) == nil {
		panic(engineAbort{"unsupported: global " + pkgPath + "." + name + " not loaded"})
	}
	ensurePkg(in, p)
	return *in.globals[p.Var(name)]
}

var universeError = types.Universe.Lookup("error").Type()

func init() {
	// maps.clone is implemented by the runtime (linkname): a shallow copy of the map
	externals["maps.clone"] = func(fr *frame, args []value) value {
		it, _ := args[0].(iface)
		m, _ := it.v.(*omap)
		if m == nil {
			return args[0]
		}
		c := newOmap(m.kt)
		for _, e := range m.ents {
			if !e.dead {
				c.insert(fr.i, e.key, e.val)
			}
		}
		return iface{t: it.t, v: c}
	}
	externals["encoding/json.Marshal"] = func(fr *frame, args []value) value {
		return tuple{bytesValue(marshalValue(fr.i, args[0], true)), iface{}}
	}
	externals["encoding/json.MarshalIndent"] = func(fr *frame, args []value) value {
		prefix, ok1 := concreteStr(args[1])
		indent, ok2 := concreteStr(args[2])
		if !ok1 || !ok2 {
			unsupportedJSON("symbolic indentation")
		}
		var out bytes.Buffer
		if err := json.Indent(&out, marshalValue(fr.i, args[0], true), prefix, indent); err != nil {
			return tuple{[]value(nil), errValue(fr.i, err.Error())}
		}
		return tuple{bytesValue(out.Bytes()), iface{}}
	}
	externals["encoding/json.Unmarshal"] = func(fr *frame, args []value) value {
		data, ok := concreteBytes(args[0])
		if !ok {
			unsupportedJSON("Unmarshal of symbolic bytes")
		}
		if !json.Valid(data) {
			var g any
			err := json.Unmarshal(data, &g)
			msg := "invalid JSON"
			if err != nil {
				msg = err.Error()
			}
			return errValue(fr.i, msg)
		}
		_, msg := decodeInto(fr.i, data, args[1], false)
		if msg != "" {
			return jsonError(fr.i, msg)
		}
		return iface{}
	}
	externals["(*encoding/json.Encoder).Encode"] = func(fr *frame, args []value) value {
		in := fr.i
		encT := in.pg.TypeOf("encoding/json", "Encoder")
		ev := *(args[0].(*value))
		escape := true
		if b, ok := (*structFieldByName(ev, encT, "escapeHTML")).(bool); ok {
			escape = b
		}
		out := marshalValue(in, args[1], escape)
		prefix, _ := concreteStr(*structFieldByName(ev, encT, "indentPrefix"))
		indent, _ := concreteStr(*structFieldByName(ev, encT, "indentValue"))
		if prefix != "" || indent != "" {
			var b bytes.Buffer
			if err := json.Indent(&b, out, prefix, indent); err == nil {
				out = b.Bytes()
			}
		}
		out = append(out, '\n')
		w := *structFieldByName(ev, encT, "w")
		res := callMethod(in, w, "Write", bytesValue(out))
		if t, ok := res.(tuple); ok && len(t) == 2 {
			if e, ok := t[1].(iface); ok && e.t != nil {
				*structFieldByName(ev, encT, "err") = e
				return e
			}
		}
		return iface{}
	}
	externals["(*encoding/json.Decoder).Decode"] = func(fr *frame, args []value) value {
		in := fr.i
		decT := in.pg.TypeOf("encoding/json", "Decoder")
		cellp := args[0].(*value)
		dv := *cellp
		if in.jsonDecs == nil {
			in.jsonDecs = map[*value]*jsonDecState{}
		}
		st := in.jsonDecs[cellp]
		if st == nil {
			st = &jsonDecState{}
			in.jsonDecs[cellp] = st
			// read the whole stream
			r := *structFieldByName(dv, decT, "r")
			for !st.eof {
				chunk := make([]value, 512)
				for i := range chunk {
					chunk[i] = uint8(0)
				}
				res := callMethod(in, r, "Read", chunk).(tuple)
				n := int(asInt64(res[0]))
				b, ok := concreteBytes(chunk[:n])
				if !ok {
					unsupportedJSON("Decoder reading symbolic bytes")
				}
				st.buf = append(st.buf, b...)
				if e, ok := res[1].(iface); ok && e.t != nil {
					st.eof = true
					if !in.truth(eqValue(in, universeError, e, in.ioEOF())) {
						st.rerr = e
					}
				} else if n == 0 {
					st.eof = true
				}
			}
		}
		ds := *structFieldByName(dv, decT, "d")
		dsT := in.pg.TypeOf("encoding/json", "decodeState")
		disallow, _ := (*structFieldByName(ds, dsT, "disallowUnknownFields")).(bool)
		rest := st.buf[st.off:]
		if len(bytes.TrimSpace(rest)) == 0 {
			st.off = len(st.buf)
			if st.rerr != nil {
				return st.rerr
			}
			return in.ioEOF()
		}
		n, msg := decodeInto(in, rest, args[1], disallow)
		st.off += n
		if msg != "" {
			if msg == "EOF" || msg == "unexpected EOF" {
				if st.rerr != nil {
					return st.rerr
				}
			}
			return jsonError(in, msg)
		}
		return iface{}
	}
}

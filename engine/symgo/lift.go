package symgo

// Lifting native Go values (produced by natively linked DAWGS code, e.g. the ANTLR front
// end) into the engine heap by reflection. Marker substrings of Go strings can be replaced
// by engine strings (typically symbolic) on the way.

import (
	"fmt"
	"go/types"
	"reflect"
	"strings"
)

// Interp is the handle native hooks receive.
type Interp = interpreter

// NativeHook implements a harness function natively inside the engine.
type NativeHook func(in *Interp, args []Value) Value

// RegisterHook installs hook for every function whose name (without package) is name.
func (pg *Program) RegisterHook(name string, hook NativeHook) {
	if pg.Hooks == nil {
		pg.Hooks = map[string]NativeHook{}
	}
	pg.Hooks[name] = hook
}

type lifter struct {
	in    *interpreter
	seen  map[uintptr]*value
	subst []substPair
	tmemo map[reflect.Type]types.Type
}

type substPair struct {
	marker string
	repl   symstr
}

// GoString returns the Go string of a concrete engine string value.
func GoString(v Value) (string, bool) {
	s, ok := v.(string)
	return s, ok
}

// MapEntries returns the entries of an engine map in insertion order.
func MapEntries(v Value) (keys, vals []Value) {
	m, _ := v.(*omap)
	if m == nil {
		return nil, nil
	}
	for _, e := range m.ents {
		if !e.dead {
			keys = append(keys, e.key)
			vals = append(vals, e.val)
		}
	}
	return
}

// ErrorValue builds an engine error value (errors.New(msg)) or the nil error for "".
func (in *interpreter) ErrorValue(msg string) Value {
	if msg == "" {
		return iface{}
	}
	return errValue(in, msg)
}

// Tuple builds a multi-value result.
func Tuple(vs ...Value) Value { return tuple(vs) }

// Lift converts the native value x into an engine value of static type t (a type of the
// loaded program). subst maps marker substrings to engine string values.
func (in *interpreter) Lift(x any, t types.Type, substKeys []string, substVals []Value) Value {
	l := &lifter{in: in, seen: map[uintptr]*value{}, tmemo: map[reflect.Type]types.Type{}}
	for i, k := range substKeys {
		l.subst = append(l.subst, substPair{k, toSymstr(substVals[i])})
	}
	return l.lift(reflect.ValueOf(x), t)
}

// TypeOf finds the named type pkgPath.name of the loaded program.
func (pg *Program) TypeOf(pkgPath, name string) types.Type {
	p := pg.Package(pkgPath)
	if p == nil {
		return nil
	}
	m := p.Type(name)
	if m == nil {
		return nil
	}
	return m.Type()
}

func (l *lifter) str(s string) value {
	if len(l.subst) == 0 {
		return s
	}
	out := toSymstr(s)
	changed := false
	for _, sp := range l.subst {
		if sp.marker == "" {
			continue
		}
		from := 0
		for {
			idx := indexConcrete(out[from:], sp.marker)
			if idx < 0 {
				break
			}
			idx += from
			n := make(symstr, 0, len(out)-len(sp.marker)+len(sp.repl))
			n = append(n, out[:idx]...)
			n = append(n, sp.repl...)
			n = append(n, out[idx+len(sp.marker):]...)
			out = n
			from = idx + len(sp.repl)
			changed = true
		}
	}
	if !changed {
		return s
	}
	return normStr(out)
}

// CallFunc interprets pkgPath.name(args...) in the engine.
func (in *interpreter) CallFunc(pkgPath, name string, args ...Value) Value {
	fn := in.pg.lookupFunc(pkgPath, name)
	if fn == nil {
		panic(engineAbort{"unsupported: function " + pkgPath + "." + name + " not loaded"})
	}
	return call(in, nil, 0, fn, args)
}

// IfaceValue returns the dynamic value held by an interface value.
func IfaceValue(v Value) Value {
	if it, ok := v.(iface); ok {
		return it.v
	}
	return v
}

// NilPointer is the nil pointer value.
func NilPointer() Value { return (*value)(nil) }

// Program returns the loaded program.
func (in *interpreter) Program() *Program { return in.pg }

// indexConcrete finds marker among the concrete bytes of s (symbolic bytes never match).
func indexConcrete(s symstr, marker string) int {
	for i := 0; i+len(marker) <= len(s); i++ {
		ok := true
		for j := 0; j < len(marker); j++ {
			c, conc := s[i+j].(uint8)
			if !conc || c != marker[j] {
				ok = false
				break
			}
		}
		if ok {
			return i
		}
	}
	return -1
}

// typeFor maps a reflect type to the program's types.Type.
func (l *lifter) typeFor(rt reflect.Type) types.Type {
	if t, ok := l.tmemo[rt]; ok {
		return t
	}
	var t types.Type
	if rt.Name() != "" && rt.PkgPath() != "" {
		name := rt.Name()
		if i := strings.Index(name, "["); i >= 0 {
			panic(engineAbort{"unsupported: lifting a value of generic type " + rt.String()})
		}
		t = l.in.pg.TypeOf(rt.PkgPath(), name)
		if t == nil {
			panic(engineAbort{"unsupported: lift: type " + rt.PkgPath() + "." + name + " not in the loaded program"})
		}
		l.tmemo[rt] = t
		return t
	}
	switch rt.Kind() {
	case reflect.Bool:
		t = types.Typ[types.Bool]
	case reflect.Int:
		t = types.Typ[types.Int]
	case reflect.Int8:
		t = types.Typ[types.Int8]
	case reflect.Int16:
		t = types.Typ[types.Int16]
	case reflect.Int32:
		t = types.Typ[types.Int32]
	case reflect.Int64:
		t = types.Typ[types.Int64]
	case reflect.Uint:
		t = types.Typ[types.Uint]
	case reflect.Uint8:
		t = types.Typ[types.Uint8]
	case reflect.Uint16:
		t = types.Typ[types.Uint16]
	case reflect.Uint32:
		t = types.Typ[types.Uint32]
	case reflect.Uint64:
		t = types.Typ[types.Uint64]
	case reflect.Uintptr:
		t = types.Typ[types.Uintptr]
	case reflect.Float32:
		t = types.Typ[types.Float32]
	case reflect.Float64:
		t = types.Typ[types.Float64]
	case reflect.String:
		t = types.Typ[types.String]
	case reflect.Pointer:
		t = types.NewPointer(l.typeFor(rt.Elem()))
	case reflect.Slice:
		t = types.NewSlice(l.typeFor(rt.Elem()))
	case reflect.Array:
		t = types.NewArray(l.typeFor(rt.Elem()), int64(rt.Len()))
	case reflect.Map:
		t = types.NewMap(l.typeFor(rt.Key()), l.typeFor(rt.Elem()))
	case reflect.Interface:
		if rt.NumMethod() == 0 {
			t = types.NewInterfaceType(nil, nil)
		} else {
			panic(engineAbort{"unsupported: lift: unnamed non-empty interface type"})
		}
	case reflect.Struct:
		if rt.NumField() == 0 {
			t = types.NewStruct(nil, nil)
		} else {
			panic(engineAbort{"unsupported: lift: unnamed struct type " + rt.String()})
		}
	default:
		panic(engineAbort{"unsupported: lift: kind " + rt.Kind().String()})
	}
	l.tmemo[rt] = t
	return t
}

func (l *lifter) lift(rv reflect.Value, t types.Type) value {
	if !rv.IsValid() {
		return zero(t)
	}
	switch ut := t.Underlying().(type) {
	case *types.Basic:
		switch rv.Kind() {
		case reflect.Bool:
			return rv.Bool()
		case reflect.Int, reflect.Int8, reflect.Int16, reflect.Int32, reflect.Int64:
			return constOfKind(ut.Kind(), uint64(rv.Int()))
		case reflect.Uint, reflect.Uint8, reflect.Uint16, reflect.Uint32, reflect.Uint64, reflect.Uintptr:
			return constOfKind(ut.Kind(), rv.Uint())
		case reflect.Float32:
			return float32(rv.Float())
		case reflect.Float64:
			return rv.Float()
		case reflect.String:
			return l.str(rv.String())
		}
		panic(engineAbort{fmt.Sprintf("unsupported: lift basic kind %v", rv.Kind())})
	case *types.Pointer:
		if rv.IsNil() {
			return (*value)(nil)
		}
		key := rv.Pointer()
		if c, ok := l.seen[key]; ok {
			return c
		}
		if named, ok := ut.Elem().(*types.Named); ok && named.Obj().Pkg() != nil {
			if h := l.in.pg.LiftHooks[named.Obj().Pkg().Path()+"."+named.Obj().Name()]; h != nil {
				if p, ok := h(l.in, rv.Elem()).(*value); ok {
					l.seen[key] = p
					return p
				}
			}
		}
		c := new(value)
		l.seen[key] = c
		*c = l.lift(rv.Elem(), ut.Elem())
		return c
	case *types.Struct:
		s := make(structure, ut.NumFields())
		for i := range s {
			s[i] = l.lift(rv.Field(i), ut.Field(i).Type())
		}
		return s
	case *types.Slice:
		if rv.IsNil() {
			return []value(nil)
		}
		out := make([]value, rv.Len(), rv.Len())
		for i := range out {
			out[i] = l.lift(rv.Index(i), ut.Elem())
		}
		return out
	case *types.Array:
		out := make(array, rv.Len())
		for i := range out {
			out[i] = l.lift(rv.Index(i), ut.Elem())
		}
		return out
	case *types.Map:
		if rv.IsNil() {
			return (*omap)(nil)
		}
		m := newOmap(ut.Key())
		// deterministic order: sort keys by their printed form
		keys := rv.MapKeys()
		sortReflectKeys(keys)
		for _, k := range keys {
			m.insert(l.in, l.lift(k, ut.Key()), l.lift(rv.MapIndex(k), ut.Elem()))
		}
		return m
	case *types.Interface:
		if rv.Kind() == reflect.Interface {
			if rv.IsNil() {
				return iface{}
			}
			rv = rv.Elem()
		}
		dt := l.typeFor(rv.Type())
		return iface{t: dt, v: l.lift(rv, dt)}
	case *types.Signature:
		if rv.IsNil() {
			return zero(t)
		}
		panic(engineAbort{"unsupported: lift of a non-nil func value"})
	case *types.Chan:
		if rv.IsNil() {
			return chan value(nil)
		}
		panic(engineAbort{"unsupported: lift of a channel"})
	}
	panic(engineAbort{fmt.Sprintf("unsupported: lift of %v as %v", rv.Type(), t)})
}

func sortReflectKeys(keys []reflect.Value) {
	str := func(v reflect.Value) string { return fmt.Sprint(v) }
	for i := 1; i < len(keys); i++ {
		for j := i; j > 0 && str(keys[j]) < str(keys[j-1]); j-- {
			keys[j], keys[j-1] = keys[j-1], keys[j]
		}
	}
}

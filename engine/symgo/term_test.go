package symgo

import (
	"math/rand"
	"testing"
)

// TestSimplifierAgainstConcrete builds random expressions through the simplifying
// constructors and checks that evaluating the resulting term under random assignments
// gives the value obtained by computing the same expression on concrete machine words.
func TestSimplifierAgainstConcrete(t *testing.T) {
	rng := rand.New(rand.NewSource(1))
	type val struct {
		t *term
		c []uint64 // concrete value per assignment
		w int
	}
	const nAssign = 8
	for iter := 0; iter < 4000; iter++ {
		models := make([]map[string]uint64, nAssign)
		for i := range models {
			models[i] = map[string]uint64{}
		}
		var pool []val
		for i, w := range []int{64, 64, 32, 16, 8, 64} {
			name := string(rune('a' + i))
			v := val{t: mkVar("tv_"+name, w), w: w, c: make([]uint64, nAssign)}
			for k := range models {
				x := rng.Uint64()
				switch rng.Intn(4) {
				case 0:
					x &= 0xff
				case 1:
					x &= 0xffff0000ffff
				}
				x &= mask(w)
				models[k][v.t.name] = x
				v.c[k] = x
			}
			pool = append(pool, v)
		}
		pick := func(w int) val {
			for tries := 0; tries < 50; tries++ {
				v := pool[rng.Intn(len(pool))]
				if v.w == w {
					return v
				}
			}
			// convert something
			v := pool[rng.Intn(len(pool))]
			out := val{w: w, c: make([]uint64, nAssign)}
			if v.w > w {
				out.t = mkExtract(w-1, 0, v.t)
				for k := range out.c {
					out.c[k] = v.c[k] & mask(w)
				}
			} else {
				out.t = mkZext(w, v.t)
				copy(out.c, v.c)
			}
			return out
		}
		for step := 0; step < 12; step++ {
			w := []int{8, 16, 32, 64}[rng.Intn(4)]
			a := pick(w)
			out := val{w: w, c: make([]uint64, nAssign)}
			switch op := rng.Intn(14); op {
			case 0, 1, 2, 3, 4, 5:
				b := pick(w)
				if rng.Intn(3) == 0 {
					cst := []uint64{0, 1, 0xffff, 0xffff0000, 0xff00, mask(w), 0xffffffff, 0xf0f0, 1 << 16}[rng.Intn(9)] & mask(w)
					b = val{t: mkConst(cst, w), w: w, c: make([]uint64, nAssign)}
					for k := range b.c {
						b.c[k] = cst
					}
				}
				name := []string{"bvand", "bvor", "bvxor", "bvadd", "bvsub", "bvmul"}[op]
				out.t = mkBV(name, w, a.t, b.t)
				for k := range out.c {
					x, y := a.c[k], b.c[k]
					var r uint64
					switch name {
					case "bvand":
						r = x & y
					case "bvor":
						r = x | y
					case "bvxor":
						r = x ^ y
					case "bvadd":
						r = x + y
					case "bvsub":
						r = x - y
					case "bvmul":
						r = x * y
					}
					out.c[k] = r & mask(w)
				}
			case 6, 7:
				sh := uint64(rng.Intn(w + 2))
				name := "bvshl"
				if op == 7 {
					name = "bvlshr"
				}
				out.t = mkBV(name, w, a.t, mkConst(sh, w))
				for k := range out.c {
					var r uint64
					if sh < uint64(w) {
						if op == 6 {
							r = a.c[k] << sh
						} else {
							r = a.c[k] >> sh
						}
					}
					out.c[k] = r & mask(w)
				}
			case 8:
				hi := rng.Intn(w)
				lo := rng.Intn(hi + 1)
				e := mkExtract(hi, lo, a.t)
				// keep widths in the pool to the four machine widths: re-extend
				out.t = mkZext(w, e)
				for k := range out.c {
					out.c[k] = (a.c[k] >> uint(lo)) & mask(hi-lo+1)
				}
			case 9:
				if w == 64 {
					continue
				}
				out.w = w * 2
				out.t = mkSext(w*2, a.t)
				for k := range out.c {
					out.c[k] = uint64(sext(a.c[k], w)) & mask(w*2)
				}
			case 10:
				b := pick(w)
				c := mkEq(a.t, b.t)
				out.t = mkIte(c, a.t, mkBVNot(b.t))
				for k := range out.c {
					if a.c[k] == b.c[k] {
						out.c[k] = a.c[k]
					} else {
						out.c[k] = ^b.c[k] & mask(w)
					}
				}
			case 11, 12:
				b := pick(w)
				name := []string{"bvult", "bvule", "bvugt", "bvuge", "bvslt", "bvsle", "bvsgt", "bvsge"}[rng.Intn(8)]
				c := mkCmp(name, a.t, b.t)
				out.t = mkIte(c, mkConst(1, w), mkConst(0, w))
				for k := range out.c {
					x, y := a.c[k], b.c[k]
					sx, sy := sext(x, w), sext(y, w)
					var r bool
					switch name {
					case "bvult":
						r = x < y
					case "bvule":
						r = x <= y
					case "bvugt":
						r = x > y
					case "bvuge":
						r = x >= y
					case "bvslt":
						r = sx < sy
					case "bvsle":
						r = sx <= sy
					case "bvsgt":
						r = sx > sy
					case "bvsge":
						r = sx >= sy
					}
					if r {
						out.c[k] = 1
					}
				}
			case 13:
				out.t = mkBVNot(a.t)
				for k := range out.c {
					out.c[k] = ^a.c[k] & mask(w)
				}
			}
			if out.t.w != out.w {
				t.Fatalf("width: term %d value %d (%s)", out.t.w, out.w, out.t.short())
			}
			for k := range out.c {
				got, ok := out.t.eval(models[k], map[*term]uint64{})
				if !ok || got != out.c[k] {
					t.Fatalf("iter %d step %d: term %s evaluates to %#x, concrete %#x (model %v)", iter, step, out.t.short(), got, out.c[k], models[k])
				}
			}
			pool = append(pool, out)
		}
	}
}

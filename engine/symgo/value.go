// Copyright 2013 The Go Authors. All rights reserved.
// Use of this source code is governed by a BSD-style
// license that can be found in the LICENSE file.

package symgo

// Values
//
// All interpreter values are "boxed" in the empty interface, value.
// The range of possible dynamic types within value are:
//
// - bool
// - numbers (all built-in int/float/complex types are distinguished)
// - string
// - map[value]value --- maps for which  usesBuiltinMap(keyType)
//   *hashmap        --- maps for which !usesBuiltinMap(keyType)
// - chan value
// - []value --- slices
// - iface --- interfaces.
// - structure --- structs.  Fields are ordered and accessed by numeric indices.
// - array --- arrays.
// - *value --- pointers.  Careful: *value is a distinct type from *array etc.
// - *ssa.Function \
//   *ssa.Builtin   } --- functions.  A nil 'func' is always of type *ssa.Function.
//   *closure      /
// - tuple --- as returned by Return, Next, "value,ok" modes, etc.
// - iter --- iterators from 'range' over map or string.
// - bad --- a poison pill for locals that have gone out of scope.
// - rtype -- the interpreter's concrete implementation of reflect.Type
// - **deferred -- the address of a frame's defer stack for a Defer._Stack.
//
// Note that nil is not on this list.
//
// Pay close attention to whether or not the dynamic type is a pointer.
// The compiler cannot help you since value is an empty interface.

import (
	"bytes"
	"fmt"
	"go/types"
	"io"
	"strings"

	"golang.org/x/tools/go/ssa"
)

type value any

type tuple []value

type array []value

type iface struct {
	t types.Type // never an "untyped" type
	v value
}

type structure []value

// For map, array, *array, slice, string or channel.
type iter interface {
	// next returns a Tuple (key, value, ok).
	// key and value are unaliased, e.g. copies of the sequence element.
	next() tuple
}

type closure struct {
	Fn  *ssa.Function
	Env []value
}

type bad struct{}

type rtype struct {
	t types.Type
}

// Hash functions and equivalence relation:

func (x array) eq(t types.Type, _y any) bool {
	y := _y.(array)
	tElt := t.Underlying().(*types.Array).Elem()
	for i, xi := range x {
		if !equals(tElt, xi, y[i]) {
			return false
		}
	}
	return true
}

func (x structure) eq(t types.Type, _y any) bool {
	y := _y.(structure)
	tStruct := t.Underlying().(*types.Struct)
	for i, n := 0, tStruct.NumFields(); i < n; i++ {
		if f := tStruct.Field(i); !f.Anonymous() {
			if !equals(f.Type(), x[i], y[i]) {
				return false
			}
		}
	}
	return true
}

// nil-tolerant variant of types.Identical.
func sameType(x, y types.Type) bool {
	if x == nil {
		return y == nil
	}
	return y != nil && types.Identical(x, y)
}

func (x iface) eq(t types.Type, _y any) bool {
	y := _y.(iface)
	return sameType(x.t, y.t) && (x.t == nil || equals(x.t, x.v, y.v))
}

func (x rtype) eq(_ types.Type, y any) bool {
	return types.Identical(x.t, y.(rtype).t)
}

// equals returns true iff x and y are equal according to Go's
// linguistic equivalence relation for type t.
// In a well-typed program, the dynamic types of x and y are
// guaranteed equal.
func equals(t types.Type, x, y value) bool {
	switch x := x.(type) {
	case bool:
		return x == y.(bool)
	case int:
		return x == y.(int)
	case int8:
		return x == y.(int8)
	case int16:
		return x == y.(int16)
	case int32:
		return x == y.(int32)
	case int64:
		return x == y.(int64)
	case uint:
		return x == y.(uint)
	case uint8:
		return x == y.(uint8)
	case uint16:
		return x == y.(uint16)
	case uint32:
		return x == y.(uint32)
	case uint64:
		return x == y.(uint64)
	case uintptr:
		return x == y.(uintptr)
	case float32:
		return x == y.(float32)
	case float64:
		return x == y.(float64)
	case complex64:
		return x == y.(complex64)
	case complex128:
		return x == y.(complex128)
	case string:
		return x == y.(string)
	case *value:
		return x == y.(*value)
	case chan value:
		return x == y.(chan value)
	case structure:
		return x.eq(t, y)
	case array:
		return x.eq(t, y)
	case iface:
		return x.eq(t, y)
	case rtype:
		return x.eq(t, y)
	}

	// Since map, func and slice don't support comparison, this
	// case is only reachable if one of x or y is literally nil
	// (handled in eqnil) or via interface{} values.
	panic(fmt.Sprintf("comparing uncomparable type %s", t))
}

// reflect.Value struct values don't have a fixed shape, since the
// payload can be a scalar or an aggregate depending on the instance.
// So store (and load) can't simply use recursion over the shape of the
// rhs value, or the lhs, to copy the value; we need the static type
// information.  (We can't make reflect.Value a new basic data type
// because its "structness" is exposed to Go programs.)

// load returns the value of type T in *addr.
func load(T types.Type, addr *value) value {
	switch T := T.Underlying().(type) {
	case *types.Struct:
		v := (*addr).(structure)
		a := make(structure, len(v))
		for i := range a {
			a[i] = load(T.Field(i).Type(), &v[i])
		}
		return a
	case *types.Array:
		v := (*addr).(array)
		a := make(array, len(v))
		for i := range a {
			a[i] = load(T.Elem(), &v[i])
		}
		return a
	default:
		return *addr
	}
}

// store stores value v of type T into *addr.
func store(T types.Type, addr *value, v value) {
	switch T := T.Underlying().(type) {
	case *types.Struct:
		lhs := (*addr).(structure)
		rhs := v.(structure)
		for i := range lhs {
			store(T.Field(i).Type(), &lhs[i], rhs[i])
		}
	case *types.Array:
		lhs := (*addr).(array)
		rhs := v.(array)
		for i := range lhs {
			store(T.Elem(), &lhs[i], rhs[i])
		}
	default:
		*addr = v
	}
}

// Prints in the style of built-in println.
// (More or less; in gc println is actually a compiler intrinsic and
// can distinguish println(1) from println(interface{}(1)).)
func writeValue(buf *bytes.Buffer, v value) {
	switch v := v.(type) {
	case nil, bool, int, int8, int16, int32, int64, uint, uint8, uint16, uint32, uint64, uintptr, float32, float64, complex64, complex128, string:
		fmt.Fprintf(buf, "%v", v)

	case *omap:
		buf.WriteString("map[")
		sep := ""
		if v != nil {
			for _, e := range v.ents {
				if e.dead {
					continue
				}
				buf.WriteString(sep)
				sep = " "
				writeValue(buf, e.key)
				buf.WriteString(":")
				writeValue(buf, e.val)
			}
		}
		buf.WriteString("]")

	case sym:
		buf.WriteString("<" + v.e.short() + ">")

	case symstr:
		buf.WriteString(goString(v))

	case chan value:
		fmt.Fprintf(buf, "%v", v) // (an address)

	case *value:
		if v == nil {
			buf.WriteString("<nil>")
		} else {
			fmt.Fprintf(buf, "%p", v)
		}

	case iface:
		fmt.Fprintf(buf, "(%s, ", v.t)
		writeValue(buf, v.v)
		buf.WriteString(")")

	case structure:
		buf.WriteString("{")
		for i, e := range v {
			if i > 0 {
				buf.WriteString(" ")
			}
			writeValue(buf, e)
		}
		buf.WriteString("}")

	case array:
		buf.WriteString("[")
		for i, e := range v {
			if i > 0 {
				buf.WriteString(" ")
			}
			writeValue(buf, e)
		}
		buf.WriteString("]")

	case []value:
		buf.WriteString("[")
		for i, e := range v {
			if i > 0 {
				buf.WriteString(" ")
			}
			writeValue(buf, e)
		}
		buf.WriteString("]")

	case *ssa.Function, *ssa.Builtin, *closure:
		fmt.Fprintf(buf, "%p", v) // (an address)

	case rtype:
		buf.WriteString(v.t.String())

	case tuple:
		// Unreachable in well-formed Go programs
		buf.WriteString("(")
		for i, e := range v {
			if i > 0 {
				buf.WriteString(", ")
			}
			writeValue(buf, e)
		}
		buf.WriteString(")")

	default:
		fmt.Fprintf(buf, "<%T>", v)
	}
}

// Implements printing of Go values in the style of built-in println.
func toString(v value) string {
	var b bytes.Buffer
	writeValue(&b, v)
	return b.String()
}

// ------------------------------------------------------------------------
// Iterators

type stringIter struct {
	*strings.Reader
	i int
}

func (it *stringIter) next() tuple {
	okv := make(tuple, 3)
	ch, n, err := it.ReadRune()
	ok := err != io.EOF
	okv[0] = ok
	if ok {
		okv[1] = it.i
		okv[2] = ch
	}
	it.i += n
	return okv
}

#!/bin/bash
# Run MANIFEST.setup_cmd and every quick_cmd against /repo itself (evidence goes to
# /verif/evidence), then validate MANIFEST.json and every evidence file against the schemas.
# usage: tools/refresh_evidence.sh [property ...]
cd /verif || exit 2
props=${@:-$(python3 -c "import json;print(' '.join(c['property_id'] for c in json.load(open('MANIFEST.json'))['checks']))")}
./check selftest > /tmp/refresh_selftest.log 2>&1 || { echo "selftest failed"; tail -5 /tmp/refresh_selftest.log; }
for p in $props; do
  t0=$(date +%s)
  ./check run $p --tier quick > /tmp/refresh_$p.log 2>&1
  code=$?
  echo "$p exit=$code $(( $(date +%s) - t0 ))s $(grep -c '^harness' /tmp/refresh_$p.log) harnesses; $(grep -c 'NOT-EXHAUSTIVE\|SKIPPED-HARNESS\|VIOLATION\|VACUOUS\|ENGINE-DISAGREEMENT' /tmp/refresh_$p.log) flagged lines"
  grep 'NOT-EXHAUSTIVE\|SKIPPED-HARNESS\|VIOLATION\|VACUOUS\|ENGINE-DISAGREEMENT\|KNOWN-FINDING' /tmp/refresh_$p.log | cut -c1-200
done
python3-vt - <<'PY'
import json, jsonschema, glob
jsonschema.validate(json.load(open('/verif/MANIFEST.json')), json.load(open('/root/.vp/MANIFEST.schema.json')))
sch = json.load(open('/root/.vp/EVIDENCE.schema.json'))
for f in sorted(glob.glob('/verif/evidence/*.json')):
    jsonschema.validate(json.load(open(f)), sch)
print('MANIFEST and', len(glob.glob('/verif/evidence/*.json')), 'evidence files valid')
PY

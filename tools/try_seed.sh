#!/bin/bash
# usage: tools/try_seed.sh <seed-name> <property> [harness]   - runs the quick check against a
# scratch worktree of /repo with the seeded patch applied (never touches /repo itself)
set -u
seed=$1; prop=$2; only=${3:-}
wt=/tmp/tryseed-wt
git -C /repo worktree remove --force $wt >/dev/null 2>&1
git -C /repo worktree add --detach $wt HEAD >/dev/null 2>&1 || exit 2
git -C $wt apply /verif/seeded/$seed/patch.diff || { echo "patch does not apply"; git -C /repo worktree remove --force $wt; exit 2; }
mkdir -p /tmp/ev-scratch
VERIF_REPO=$wt VERIF_EVIDENCE_DIR=/tmp/ev-scratch timeout 3000 /verif/check run $prop --tier quick ${only:+--only $only} --stop-at-first 2>&1 | grep -v "^\[progress\|conda" | grep -A1 "VIOLATION\|SKIPPED\|no harness" | cut -c1-330 | head -4
git -C /repo worktree remove --force $wt >/dev/null 2>&1
echo "--- $seed done"

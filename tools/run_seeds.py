#!/usr/bin/env python3
"""Run the registered checks against every seeded change under /verif/seeded and record
which harnesses report it. usage: run_seeds.py [tier] [name ...]
The checks run from a snapshot copy of /verif (so that work in /verif does not disturb
them) against scratch worktrees of /repo's HEAD to which one patch at a time is applied
(git apply); /repo itself is never touched. Evidence of these runs goes to scratch."""
import json, os, re, shutil, subprocess, sys, tempfile, threading
from concurrent.futures import ThreadPoolExecutor
tier = sys.argv[1] if len(sys.argv) > 1 else 'quick'
names = sys.argv[2:] or sorted(n for n in os.listdir('/verif/seeded') if os.path.isdir('/verif/seeded/' + n))
JOBS = int(os.environ.get('SEED_JOBS', '3'))
snap = tempfile.mkdtemp(prefix='verif-snap-')
subprocess.run(['rsync', '-a', '--exclude', '.git', '--exclude', '.work', '--exclude', 'replays', '/verif/', snap + '/'], check=True)
scratch = tempfile.mkdtemp(prefix='seedev-')
lock = threading.Lock()
free = []
for i in range(JOBS):
    wt = '/tmp/seedrun-wt-%d' % i
    subprocess.run(['git', '-C', '/repo', 'worktree', 'remove', '--force', wt], capture_output=True)
    subprocess.run(['git', '-C', '/repo', 'worktree', 'add', '--detach', wt, 'HEAD'], check=True, capture_output=True)
    free.append(wt)
rows = {}


def one(name):
    d = os.path.join('/verif/seeded', name)
    mp = os.path.join(d, 'meta.json')
    if not os.path.exists(mp):
        return
    meta = json.load(open(mp))
    prop = meta['property']
    with lock:
        wt = free.pop()
    try:
        ap = subprocess.run(['git', '-C', wt, 'apply', os.path.join(d, 'patch.diff')], capture_output=True, text=True)
        if ap.returncode != 0:
            meta['detected_by'] = {'tier': tier, 'result': 'patch does not apply to the current (repaired) tree', 'harnesses': []}
            json.dump(meta, open(mp, 'w'), indent=1)
            rows[name] = (name, prop, 'PATCH-FAILS', '')
            print(rows[name], flush=True)
            return
        env = dict(os.environ, VERIF_EVIDENCE_DIR=os.path.join(scratch, name), VERIF_REPO=wt)
        os.makedirs(env['VERIF_EVIDENCE_DIR'], exist_ok=True)
        try:
            r = subprocess.run(['./check', 'run', prop, '--tier', tier, '--stop-at-first'], cwd=snap, env=env, capture_output=True, text=True, timeout=5400)
            out, code = r.stdout, r.returncode
        except subprocess.TimeoutExpired as e:
            out = (e.stdout or b'').decode() if isinstance(e.stdout, bytes) else (e.stdout or '')
            code = 'timeout'
        hs = sorted(set(re.findall(r'^  harness=(\S+)', out, re.M)))
        detected = 'VIOLATION property=' in out
        skipped = sorted(set(re.findall(r'^SKIPPED-HARNESS (\S+):', out, re.M)))
        result = 'detected' if detected else ('check did not run (exit %s)' % code if code not in (0, 1) else 'missed')
        if meta.get('status_on_repaired_tree') and not detected:
            result = 'not a violation any more (' + str(meta['status_on_repaired_tree']).split(':')[0] + ')'
        meta['detected_by'] = {'tier': tier, 'result': result, 'exit': code, 'harnesses': hs, 'skipped_harnesses': skipped}
        json.dump(meta, open(mp, 'w'), indent=1)
        rows[name] = (name, prop, 'DETECTED' if detected else result, ','.join(hs))
        print(rows[name], flush=True)
    finally:
        subprocess.run('git -C %s checkout -- . && git -C %s clean -fdq' % (wt, wt), shell=True)
        with lock:
            free.append(wt)


with ThreadPoolExecutor(JOBS) as ex:
    list(ex.map(one, names))
# merge into RESULTS.md (keep rows of seeds not run this time)
res = '/verif/seeded/RESULTS.md'
old = {}
if os.path.exists(res):
    for line in open(res):
        m = re.match(r'\| (\S+) \| (\S+) \| (.*?) \| (.*?) \|$', line.strip())
        if m and m.group(1) != 'seed' and not m.group(1).startswith('-'):
            old[m.group(1)] = m.groups()
old.update(rows)
with open(res, 'w') as f:
    f.write('# Seeded changes vs. checks (tier: %s)\n\n| seed | property | result | harnesses reporting |\n|---|---|---|---|\n' % tier)
    for k in sorted(old):
        f.write('| %s | %s | %s | %s |\n' % tuple(old[k]))
shutil.rmtree(scratch, ignore_errors=True)
shutil.rmtree(snap, ignore_errors=True)
for i in range(JOBS):
    subprocess.run(['git', '-C', '/repo', 'worktree', 'remove', '--force', '/tmp/seedrun-wt-%d' % i], capture_output=True)

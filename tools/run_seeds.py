#!/usr/bin/env python3
"""Run the registered checks against every seeded change under /verif/seeded and record
which harnesses report it. usage: run_seeds.py [tier] [name ...]
Applies each patch to /repo (git apply), runs the property's check, restores /repo
(git checkout -- .). Evidence of these runs goes to a scratch directory."""
import json, os, re, subprocess, sys, tempfile
tier = sys.argv[1] if len(sys.argv) > 1 else 'quick'
names = sys.argv[2:] or sorted(os.listdir('/verif/seeded'))
scratch = tempfile.mkdtemp(prefix='seedev-', dir='/verif/.work' if os.path.isdir('/verif/.work') else None)
env = dict(os.environ, VERIF_EVIDENCE_DIR=scratch)
# the seeded change is applied to a scratch worktree of /repo's HEAD, never to /repo itself
WT = '/tmp/seedrun-wt'
subprocess.run(['git', '-C', '/repo', 'worktree', 'remove', '--force', WT], capture_output=True)
subprocess.run(['git', '-C', '/repo', 'worktree', 'add', '--detach', WT, 'HEAD'], check=True, capture_output=True)
env['VERIF_REPO'] = WT
rows = []
for name in names:
    d = os.path.join('/verif/seeded', name)
    mp = os.path.join(d, 'meta.json')
    if not os.path.exists(mp):
        continue
    meta = json.load(open(mp))
    prop = meta['property']
    ap = subprocess.run(['git', '-C', WT, 'apply', os.path.join(d, 'patch.diff')], capture_output=True, text=True)
    if ap.returncode != 0:
        meta['detected_by'] = {'tier': tier, 'result': 'patch does not apply to the current (fixed) tree', 'harnesses': []}
        json.dump(meta, open(mp, 'w'), indent=1)
        rows.append((name, prop, 'PATCH-FAILS', ''))
        continue
    try:
        r = subprocess.run(['./check', 'run', prop, '--tier', tier, '--stop-at-first'], cwd='/verif', env=env, capture_output=True, text=True, timeout=3600)
        out = r.stdout
    except subprocess.TimeoutExpired as e:
        out = (e.stdout or b'').decode() if isinstance(e.stdout, bytes) else (e.stdout or '')
        r = None
    finally:
        subprocess.run('git -C %s checkout -- . && git -C %s clean -fdq' % (WT, WT), shell=True)
    hs = sorted(set(re.findall(r'^  harness=(\S+)', out, re.M)))
    detected = 'VIOLATION property=' in out
    skipped = sorted(set(re.findall(r'^SKIPPED-HARNESS (\S+):', out, re.M)))
    meta['detected_by'] = {'tier': tier, 'result': 'detected' if detected else 'missed', 'exit': (r.returncode if r else 'timeout'), 'harnesses': hs, 'skipped_harnesses': skipped}
    json.dump(meta, open(mp, 'w'), indent=1)
    rows.append((name, prop, 'DETECTED' if detected else 'missed', ','.join(hs)))
    print(rows[-1], flush=True)
with open('/verif/seeded/RESULTS.md', 'w') as f:
    f.write('# Seeded changes vs. checks (tier: %s)\n\n| seed | property | result | harnesses reporting |\n|---|---|---|---|\n' % tier)
    for r in rows:
        f.write('| %s | %s | %s | %s |\n' % r)
subprocess.run(['rm', '-rf', scratch])
subprocess.run(['git', '-C', '/repo', 'worktree', 'remove', '--force', WT], capture_output=True)

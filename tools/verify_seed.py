#!/usr/bin/env python3
"""Confirm a seeded change produced by a sub-agent and file it under /verif/seeded/<name>/.
usage: verify_seed.py <name> <property> <out_dir> <scratch_worktree>
Checks, in the scratch worktree (never /repo): demo passes on the pinned tree, demo fails
with the patch, whole suite passes with the patch (demo removed)."""
import json, os, re, shutil, subprocess, sys
name, prop, out, wt = sys.argv[1:5]
env = dict(os.environ, GOFLAGS='-mod=mod', GOPROXY='off', GOSUMDB='off', GOTOOLCHAIN='local',
           PATH='/opt/veriftools/go1.26.8/bin:' + os.environ['PATH'])
def sh(cmd, **kw):
    return subprocess.run(cmd, shell=True, cwd=wt, env=env, capture_output=True, text=True, **kw)
where = open(os.path.join(out, 'WHERE.txt')).read()
m = re.search(r'(\S+/\S+_test\.go)', where)
demo_rel = m.group(1)
m = re.search(r'^\s*(?:timeout \d+ )?(go test .*)$', where, re.M)
run_cmd = 'timeout 600 ' + m.group(1).strip()
demo_src = [f for f in os.listdir(out) if f.endswith('_test.go')][0]
def reset():
    sh('git checkout -- . && git clean -fdq')
reset()
shutil.copy(os.path.join(out, demo_src), os.path.join(wt, demo_rel))
r0 = sh(run_cmd)
base_pass = r0.returncode == 0
ap = sh('git apply ' + os.path.join(out, 'patch.diff'))
assert ap.returncode == 0, ap.stderr
r1 = sh(run_cmd)
patched_fail = r1.returncode != 0
os.remove(os.path.join(wt, demo_rel))
b = sh('go build ./...')
r2 = sh('timeout 1500 go test -vet=off -count=1 ./... 2>&1 | grep -v "^ok\\|no test files" | head -20')
suite_pass = b.returncode == 0 and 'FAIL' not in r2.stdout
reset()
ok = base_pass and patched_fail and suite_pass
print(name, 'base_pass', base_pass, 'patched_fail', patched_fail, 'suite_pass', suite_pass)
if not ok:
    print(r0.stdout[-1500:], r1.stdout[-1500:], r2.stdout[-1500:])
    sys.exit(1)
dst = os.path.join('/verif/seeded', name)
os.makedirs(dst, exist_ok=True)
shutil.copy(os.path.join(out, 'patch.diff'), dst)
shutil.copy(os.path.join(out, demo_src), dst)
notes = open(os.path.join(out, 'notes.md')).read() if os.path.exists(os.path.join(out, 'notes.md')) else ''
shutil.copy(os.path.join(out, 'notes.md'), dst) if notes else None
meta = {'property': prop, 'demo_test': demo_src, 'demo_path_in_repo': demo_rel, 'demo_cmd': run_cmd,
        'needs_to_manifest': 'see notes.md',
        'confirmed': {'demo_passes_on_pinned_tree': base_pass, 'demo_fails_with_patch': patched_fail,
                      'suite_passes_with_patch': suite_pass,
                      'how': 'tools/verify_seed.py in a scratch git worktree of /repo (git apply patch.diff; go build ./...; go test -vet=off -count=1 ./...)'},
        'detected_by': None}
json.dump(meta, open(os.path.join(dst, 'meta.json'), 'w'), indent=1)

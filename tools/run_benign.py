#!/usr/bin/env python3
"""Run the quick checks against behaviour-preserving changes under /verif/benign/<name>/
(patch.diff + meta.json {"properties": [...]}) and record that none of them raises an alarm.
usage: run_benign.py [name ...]
Like run_seeds.py: checks run from a snapshot of /verif against scratch worktrees of /repo's
HEAD; /repo itself is never touched."""
import json, os, re, shutil, subprocess, sys, tempfile, threading
from concurrent.futures import ThreadPoolExecutor
names = sys.argv[1:] or sorted(n for n in os.listdir('/verif/benign') if os.path.isdir('/verif/benign/' + n))
JOBS = int(os.environ.get('SEED_JOBS', '3'))
snap = tempfile.mkdtemp(prefix='verif-snap-')
subprocess.run(['rsync', '-a', '--exclude', '.git', '--exclude', '.work', '--exclude', 'replays', '/verif/', snap + '/'], check=True)
scratch = tempfile.mkdtemp(prefix='benignev-')
lock = threading.Lock()
free = []
for i in range(JOBS):
    wt = '/tmp/benignrun-wt-%d' % i
    subprocess.run(['git', '-C', '/repo', 'worktree', 'remove', '--force', wt], capture_output=True)
    subprocess.run(['git', '-C', '/repo', 'worktree', 'add', '--detach', wt, 'HEAD'], check=True, capture_output=True)
    free.append(wt)
rows = {}
jobs = []
for name in names:
    meta = json.load(open(os.path.join('/verif/benign', name, 'meta.json')))
    for prop in meta['properties']:
        if os.environ.get('BENIGN_PROPS') and prop not in os.environ['BENIGN_PROPS'].split(','):
            continue
        jobs.append((name, prop))


def one(job):
    name, prop = job
    d = os.path.join('/verif/benign', name)
    with lock:
        wt = free.pop()
    try:
        ap = subprocess.run(['git', '-C', wt, 'apply', os.path.join(d, 'patch.diff')], capture_output=True, text=True)
        if ap.returncode != 0:
            rows[job] = (name, prop, 'PATCH-FAILS', '')
            return
        env = dict(os.environ, VERIF_EVIDENCE_DIR=os.path.join(scratch, name + prop), VERIF_REPO=wt)
        os.makedirs(env['VERIF_EVIDENCE_DIR'], exist_ok=True)
        try:
            r = subprocess.run(['./check', 'run', prop, '--tier', 'quick'], cwd=snap, env=env, capture_output=True, text=True, timeout=5400)
            out, code = r.stdout, r.returncode
        except subprocess.TimeoutExpired as e:
            out, code = '', 'timeout'
        alarms = re.findall(r'^VIOLATION .*$', out, re.M)
        details = re.findall(r'^  harness=(\S+) kind=(\S+) .*?msg="([^"]*)"', out, re.M)
        skipped = sorted(set(re.findall(r'^SKIPPED-HARNESS (\S+):', out, re.M)))
        notex = len(re.findall(r'NOT-EXHAUSTIVE', out))
        verdict = 'quiet' if not alarms and code == 0 else ('ALARM' if alarms else 'exit %s' % code)
        rows[job] = (name, prop, verdict, '; '.join('%s %s %s' % d for d in details[:3]) + (' skipped=' + ','.join(skipped) if skipped else '') + (' not-exhaustive=%d' % notex if notex else ''))
        print(rows[job], flush=True)
    finally:
        subprocess.run('git -C %s checkout -- . && git -C %s clean -fdq' % (wt, wt), shell=True)
        with lock:
            free.append(wt)


with ThreadPoolExecutor(JOBS) as ex:
    list(ex.map(one, jobs))
old = {}
if os.path.exists('/verif/benign/RESULTS.md'):
    for line in open('/verif/benign/RESULTS.md'):
        m = re.match(r'\| (\S+) \| (\S+) \| (.*?) \| (.*?) \|$', line.strip())
        if m and m.group(1) != 'change' and not m.group(1).startswith('-'):
            old[(m.group(1), m.group(2))] = m.groups()
old.update(rows)
rows = old
with open('/verif/benign/RESULTS.md', 'w') as f:
    f.write('# Behaviour-preserving changes vs. quick checks (expected: quiet)\n\n| change | property | result | detail |\n|---|---|---|---|\n')
    for k in sorted(rows):
        f.write('| %s | %s | %s | %s |\n' % rows[k])
shutil.rmtree(scratch, ignore_errors=True)
shutil.rmtree(snap, ignore_errors=True)
for i in range(JOBS):
    subprocess.run(['git', '-C', '/repo', 'worktree', 'remove', '--force', '/tmp/benignrun-wt-%d' % i], capture_output=True)
